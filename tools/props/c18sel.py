"""C18 (SELECT part) - no SELECT statement can crash the engine.

Library used by the C18 check (call `run(ctx)`; it returns the usual
{"spec_violations","model_mismatches","known"} dict and fills ctx.report.coverage["select"]).
Grammar-derived SELECT texts that are then TYPE-CONFUSED: comparison and aggregate operands
swapped across the four column types, NULL-bearing rows, unknown / ambiguous / duplicated columns,
empty tables, ORDER BY on NULL columns, avg on varchar / boolean / NULL, bare values where a
condition is expected, non-boolean join conditions, queries without FROM. SM: Go returned rows or
an error (never a panic or a hang). MM: the model's outcome class equals Go's, so a Panic branch
forgotten in the model shows up as a disagreement."""
import vlib
from props import selcommon as sc

PROP_FILES = ["Properties/C18.v"]
HARNESS = ["engine"]
ASSUMPTIONS = [
    "rows returned by storage.Fetch have one value per column and every column holds values of one Go type "
    "or nil (db_wf); this is what Tuple.Decode produces",
    "the statement tree has the shape sql.Parser guarantees (parser_shape): non-empty select list, `*` only as "
    "the whole list, LIMIT/OFFSET >= 0",
]
SM_FN = "sm_c18"


def gen_tables(rng):
    tables = []
    for name in ["t", "u"][: rng.choice([1, 2, 2])]:
        ncols = rng.randrange(1, 6)
        t = sc.gen_table(rng, name, ncols=ncols, nrows=rng.choice([0, 0, 1, 2, 3, 5, 9, 14]),
                         pnull=rng.choice([0.0, 0.3, 0.6, 1.0]))
        # (tables with one column name used twice existed here until /repo e322443: CREATE TABLE now
        # refuses them; duplicated names still arise in join results and select lists)
        tables.append(t)
    return tables


def any_ref(rng, tables, aliases):
    r = rng.random()
    if r < 0.08:
        return rng.choice(["nosuch", "t.nosuch", "zz.a", "u.a", "a.a"])
    t = rng.choice(tables)
    c = rng.choice(t["cols"])["name"]
    tid = aliases.get(t["name"], t["name"])
    return rng.choice([c, c, "%s.%s" % (tid, c), "%s.%s" % (t["name"], c)])


def any_operand(rng, tables, aliases):
    r = rng.random()
    if r < 0.55:
        return any_ref(rng, tables, aliases)
    return rng.choice(["0", "1", "12", "'a'", "'ab'", "''", "true", "false", "99999999999"])


def any_pred(rng, tables, aliases):
    r = rng.random()
    if r < 0.12:
        return any_operand(rng, tables, aliases)          # bare value where a predicate is expected
    return "%s %s %s" % (any_operand(rng, tables, aliases), rng.choice(["=", "!=", "<", "<=", ">", ">="]),
                         any_operand(rng, tables, aliases))


def any_cond(rng, tables, aliases, depth=3):
    parts = [any_pred(rng, tables, aliases)]
    for _ in range(rng.randrange(0, depth + 1)):
        parts += [rng.choice(["AND", "OR"]), any_pred(rng, tables, aliases)]
    return " ".join(parts)


def gen_query(rng, tables):
    aliases = {}
    shape = rng.choice(["single"] * 5 + ["join"] * 3 + ["nofrom"])
    items = []
    nitems = rng.randrange(1, 5)
    agg = rng.random() < 0.45
    for _ in range(nitems):
        r = rng.random()
        if agg and r < 0.5:
            items.append(rng.choice(["count(*)", "count(%s)", "avg(%s)", "avg(%s)"]))
        elif r < 0.85:
            items.append("%s")
        else:
            items.append(None)
    if shape == "nofrom":
        its = [(i % "a") if i and "%s" in i else (i or rng.choice(["1", "'x'", "true", "1 = 1", "1 < 'a'", "a = 1"])) for i in items]
        return "SELECT " + rng.choice(["*", ", ".join(its)])
    if shape == "single":
        t = rng.choice(tables)
        use = [t]
        frm = t["name"]
        if rng.random() < 0.3:
            aliases[t["name"]] = "x"
            frm += " x"
    else:
        a, b = rng.choice(tables), rng.choice(tables)
        use = [a, b]
        al_a, al_b = rng.choice([None, "x"]), rng.choice([None, "y"])
        if al_a:
            aliases[a["name"]] = al_a
        frm = a["name"] + (" " + al_a if al_a else "")
        on = rng.choice([any_cond(rng, use, aliases, 2), any_cond(rng, use, aliases, 1), "1", "'a'", "true", "false", "x.a", "1 = 1"])
        frm += " %s %s%s ON %s" % (rng.choice(["JOIN", "LEFT JOIN", "RIGHT JOIN", "INNER JOIN"]), b["name"],
                                   " " + al_b if al_b else "", on)
        if al_b:
            aliases[b["name"]] = al_b
        if rng.random() < 0.3:
            c = rng.choice(tables)
            frm += " %s %s z ON %s" % (rng.choice(["JOIN", "LEFT JOIN", "RIGHT JOIN"]), c["name"], any_cond(rng, use, aliases, 1))
    its = []
    for i in items:
        if i is None:
            its.append(rng.choice([any_cond(rng, use, aliases, 1), "1", "'s'", "true"]))
        elif "%s" in i:
            its.append(i % any_ref(rng, use, aliases))
        else:
            its.append(i)
        if rng.random() < 0.2:
            its[-1] += rng.choice([" AS ", " "]) + rng.choice(["x", "k", "a", "b"])
    sel = ", ".join(its) if rng.random() > 0.12 else "*"
    q = "SELECT %s FROM %s" % (sel, frm)
    if rng.random() < 0.5:
        q += " WHERE " + any_cond(rng, use, aliases)
    if agg and rng.random() < 0.7 or rng.random() < 0.1:
        gb = []
        for i in its:
            base = i.split(" ")[0]
            if "(" not in i and " " not in base and rng.random() < 0.85:
                gb.append(rng.choice([base, base.split(".")[-1], i.split(" ")[-1]]))
        if rng.random() < 0.15:
            gb.append(any_ref(rng, use, aliases))
        if gb:
            q += " GROUP BY " + rng.choice([", ", " "]).join(gb)
    if rng.random() < 0.5:
        keys = []
        for _ in range(rng.randrange(1, 4)):
            i = rng.choice(its)
            k = i.split(" ")[-1] if "(" not in i.split(" ")[-1] else any_ref(rng, use, aliases)
            if rng.random() < 0.2 or not k.replace(".", "").replace("_", "").isalnum() or k[0].isdigit() or k in ("true", "false"):
                k = any_ref(rng, use, aliases)
            keys.append(k + rng.choice(["", " ASC", " DESC"]))
        q += " ORDER BY " + ", ".join(keys)
    lo = sc.gen_limit_offset(rng, rng.choice([0, 1, 3, 9]))
    if lo:
        q += " " + lo
    return q


def gen_case(rng, tier):
    tables = gen_tables(rng)
    return {"tables": tables, "queries": [gen_query(rng, tables) for _ in range(12 if tier == "quick" else 20)]}


FIXED = [   # former panics (fixed by commits 499e154, 70ce28e) and corner shapes, replayed on every run
    {"tables": [{"name": "t", "cols": [{"name": "a", "type": "int"}, {"name": "b", "type": "varchar"},
                                       {"name": "c", "type": "boolean"}],
                 "rows": [[1, "x", True], [None, None, None], [2, "y", False]]},
                {"name": "e", "cols": [{"name": "a", "type": "int"}], "rows": []}],
     "queries": ["SELECT avg(b) FROM t", "SELECT avg(c) FROM t", "SELECT avg(a) FROM t", "SELECT a FROM t ORDER BY a",
                 "SELECT b, c FROM t ORDER BY c DESC, b", "SELECT count(*), avg(a) FROM e", "SELECT avg(a) FROM e GROUP BY a",
                 "SELECT * FROM t WHERE a", "SELECT * FROM t WHERE 1 OR a = 1", "SELECT * FROM t WHERE c > true",
                 "SELECT * FROM t JOIN e ON 1", "SELECT * FROM t JOIN t y ON 1", "SELECT * FROM t LIMIT 0 OFFSET 5",
                 "SELECT *", "SELECT count(*)", "SELECT avg(a)", "SELECT a", "SELECT 1, 'x', true, 1 = 1",
                 "SELECT count(*), a = 1 FROM e", "SELECT a FROM t GROUP BY b", "SELECT count(*) FROM t GROUP BY nosuch"]},
]


def generate(rng, tier):
    n = 110 if tier == "quick" else 600
    return FIXED + [gen_case(rng, tier) for _ in range(n)]


def run(ctx):
    if ctx.replay and "case" in ctx.replay and "queries" in ctx.replay["case"]:
        cases = [ctx.replay["case"]]
    else:
        cases = generate(ctx.rng, ctx.tier)
    obs, res, items = sc.evaluate(ctx, cases, "c18sel", SM_FN, {"HYP": "hyp_c18"})
    if res.get("HYP"):
        ci, qi = res["HYP"][0]
        raise RuntimeError("a real case does not satisfy parser_shape/db_wf (hypotheses of C18_select_no_panic): %s over %s"
                           % (cases[ci]["queries"][qi], cases[ci]["tables"]))
    summ = sc.summarize(cases, obs)
    seen = set()
    nontriv = 0
    for ci, qi in items:
        r = obs[ci]["results"][qi]
        has_null = any(v is None for t in cases[ci]["tables"] for row in t["rows"] for v in row)
        key = (str(cases[ci]["tables"]), cases[ci]["queries"][qi])
        # non-trivial: the engine had to look at data: an error other than a name error, or rows over NULL-bearing tables
        if key not in seen and ((r["kind"] == "err" and r["err"] in ("IncompatTypeCompare", "NonBoolJoinCond", "Other"))
                                or (r["kind"] == "ok" and has_null and r["rows"])):
            seen.add(key)
            nontriv += 1
    cov = dict(summ)
    cov.update({
        "evaluations": len(items),
        "distinct_nontrivial": nontriv,
        "rule": "a type-confused SELECT is non-trivial when Go answered with a type/condition error "
                "(IncompatTypeCompare, NonBoolJoinCond, Other) or returned rows from NULL-bearing tables; "
                "distinct by (tables, query text)",
        "traces_validated_against_impl": len(items),
        "databases": len(cases),
        "cases_meeting_theorem_hypotheses": len(items) - len(res.get("HYP", [])),
        "samples": [{"query": cases[ci]["queries"][qi], "go": {k: obs[ci]["results"][qi].get(k) for k in ("kind", "err")}}
                    for ci, qi in items[:: max(1, len(items) // 5)][:5]],
    })
    if getattr(ctx, "pid", "") == "C18":
        ctx.report.coverage["select"] = cov
    else:
        ctx.report.coverage.update(cov)
    out = {"spec_violations": [], "model_mismatches": [], "known": [],
           "correspondence_name": "Model/Select.v select vs engine.EvaluateSelect on type-confused SELECTs (outcome class)"}
    sc.report_failures(ctx, out, cases, obs, res, "c18sel", SM_FN,
                       "EvaluateSelect panicked or hung on a statement the parser accepted")
    return out
