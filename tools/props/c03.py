"""C03 - a crash while a statement is being logged leaves a row-prefix state.
Every DML statement of a history is run with a recorder wrapped around the log file; for each
write/sync call of the statement and both cut rules (log cut at the last write / at the last
fsync) an image (data file as during the statement + surviving log bytes) is recovered with
storage.InitStorage, read back, driven by further statements, crashed and recovered again.
Each crash state is compared with the model (EvCrashInLog with the number of complete records)
and judged by the specification: some row-operation prefix, in order."""
import vlib
from props import hist, c01

PROP_FILES = ["Properties/C03.v"]
HARNESS = ["engine"]
ASSUMPTIONS = c01.ASSUMPTIONS + [
    "a write call on the O_APPEND log file is atomic and fsync makes prior writes durable (cuts are at write-call "
    "granularity, as the property quantifies); the data file does not change during a statement (flush timer excluded by C13)",
]


def build_history(rng, tier, kind=None):
    g = hist.Gen(rng, 2)
    kind = kind or rng.choice(["plain", "split", "split", "longrows", "manytables"])
    sts = []
    if kind == "manytables":
        # 7..9 user tables: the page table itself has split, so the catalog row a root-move record rewrites lives
        # in a leaf below an internal root; then one of the tables grows across its first root split, one row per
        # statement around the split, followed by statements that need the new root (upper-half rows, further rows)
        nt = rng.randint(7, 9)
        for _ in range(nt):
            sts.append(g.create(cols=[("a", "int", 0), ("b", "varchar", 255)]))
        name = sts[rng.randrange(nt)]["table"]
        first = rng.choice([6, 7, 8])
        sts.append({"k": "insert", "table": name, "cols": [], "rows": [[i, "r%d" % i] for i in range(first)]})
        for i in range(first, first + rng.randint(2, 4)):
            sts.append({"k": "insert", "table": name, "cols": [], "rows": [[i, "r%d" % i]]})
            r = rng.random()
            if r < 0.4:
                sts.append({"k": "delete", "table": name, "where": [[(("col", "", "a"), "=", rng.randrange(max(0, i - 3), i + 1))]]})
            elif r < 0.7:
                sts.append({"k": "update", "table": name, "sets": [("b", "u%d" % i)],
                            "where": [[(("col", "", "a"), ">=", max(0, i - 2))]]})
        sts.append({"k": "insert", "table": name, "cols": [], "rows": [[100 + j, "z"] for j in range(rng.choice([1, 5]))]})
    elif kind == "longrows":
        # rows within the last bytes of the 400-byte limit: their log records are the longest there are
        sts.append(g.create(cols=[("a", "int", 0), ("pad", "varchar", 400)]))
        name = sts[0]["table"]
        sts.append(g.insert(name, nrows=2))
        for _ in range(rng.randint(2, 4)):
            rows = []
            for _ in range(rng.choice([1, 2, 3])):
                g.counter += 1
                size = rng.choice([396, 397, 398, 399, 400, 400, 350])
                rows.append([g.counter, "p" * (size - 10)])          # 5 bytes INT + 5 + len
            sts.append({"k": "insert", "table": name, "cols": [], "rows": rows})
            if rng.random() < 0.5:
                sts.append({"k": "update", "table": name, "sets": [("pad", "u" * rng.choice([386, 388, 390, 5]))],
                            "where": [[(("col", "", "a"), "=", g.counter)]]})
    elif kind == "plain":
        sts.append(g.create())
        for _ in range(rng.randint(3, 8)):
            r = rng.random()
            sts.append(g.insert(nrows=rng.choice([1, 2, 4])) if r < 0.5 else g.update() if r < 0.75 else g.delete())
    else:
        sts.append(g.create(cols=[("a", "int", 0), ("b", "varchar", 255)]))
        name = sts[0]["table"]
        sts.append(g.insert(name, nrows=rng.randint(5, 8)))
        for _ in range(rng.randint(2, 6)):
            r = rng.random()
            if r < 0.55:
                sts.append(g.insert(name, nrows=rng.choice([1, 3, 6, 12])))   # crosses leaf splits: root-move records
            elif r < 0.8:
                sts.append({"k": "update", "table": name, "sets": [("b", g.value("varchar"))],
                            "where": [[(("col", "", "a"), rng.choice([">=", "<", "!="]), max(0, g.counter - rng.randint(0, 9)))]]})
            else:
                sts.append({"k": "delete", "table": name,
                            "where": [[(("col", "", "a"), rng.choice([">=", "<", "="]), max(0, g.counter - rng.randint(0, 9)))]]})
    flushes = {i for i in range(len(sts)) if rng.random() < 0.25}
    return sts, flushes


def main_events(sts, flushes):
    evs = []
    seen = []
    for i, st in enumerate(sts):
        if st["k"] == "create":
            if st["table"] not in seen:
                seen.append(st["table"])
            evs.append(("stmt", st))
        else:
            evs.append(("crashlog", st, sts[i + 1:i + 4], list(seen)))
        if i in flushes:
            evs.append(("flush",))
    return evs


def crash_cases(evs, outs):
    """one (python events, observation terms, meta) per crash point"""
    res = []
    prefix_ev, prefix_obs = [], []
    for e, o in zip(evs, outs):
        if e[0] == "crashlog":
            st, then, names = e[1], e[2], e[3]
            for cr in o.get("crashes") or []:
                ev = list(prefix_ev) + [("crashinlog", st, cr["records"]), ("tables", names)]
                ob = list(prefix_obs) + ["HOut (%s)" % hist.cq_res(cr["recover"])]
                if cr["recover"] != "ok":
                    ob.append("HDead")
                    ev = ev[:-1]
                else:
                    ob.append("HTables %s" % hist.cq_list(hist.cq_table_obs(t) for t in cr["tables"]))
                    for s2, r2 in zip(then, cr["thenRes"] or []):
                        ev.append(("stmt", s2))
                        ob.append("HOut (%s)" % hist.cq_res(r2))
                    ev.append(("tables", names))
                    ob.append("HTables %s" % hist.cq_list(hist.cq_table_obs(t) for t in cr["tables2"] or []))
                    ev.append(("crash",))
                    ob.append("HOut (%s)" % hist.cq_res(cr["recover2"]))
                    if cr["recover2"] == "ok":
                        ev.append(("tables", names))
                        ob.append("HTables %s" % hist.cq_list(hist.cq_table_obs(t) for t in cr["tables3"] or []))
                    else:
                        ob.append("HDead")
                res.append((ev, ob, {"stmt": hist.sql_stmt(st), "point": cr["point"], "cut": cr["cut"],
                                     "bytes": cr["bytes"], "records": cr["records"], "recover": cr["recover"]}))
            prefix_ev.append(("stmt", st))
            prefix_obs.append("HOut (%s)" % hist.cq_res(o["res"]))
        else:
            prefix_ev.append(e)
            prefix_obs.append(hist.cq_obs(o))
    return res


def cq_ev(e):
    if e[0] == "crashinlog":
        return "HEv (EvCrashInLog %s %d)" % (hist.cq_stmt(e[1]), e[2])
    return hist.cq_event(e)


def evaluate(ctx, name, ccases, shard=60):
    terms = ["(%s, %s)" % (hist.cq_list(cq_ev(e) for e in ev), hist.cq_list(ob)) for ev, ob, _ in ccases]
    defs = {"SM": "spec_accepts_strict"}
    if ctx.model_ok:
        defs["MM"] = "model_agrees"
    okc, res, lg = vlib.run_coq_cases(name, hist.HEADER, terms, "hcase", defs, shard=shard)
    if not okc:
        raise RuntimeError("coq evaluation failed: " + lg[-3000:])
    return res.get("MM", []), res["SM"]


def run_all(ctx, hists):
    evs = [main_events(s, f) for s, f in hists]
    outs = hist.run_histories(ctx, evs)
    ccases = []
    owner = []
    for hi, (e, o) in enumerate(zip(evs, outs)):
        cc = crash_cases(e, o)
        ccases.extend(cc)
        owner.extend([hi] * len(cc))
    return evs, outs, ccases, owner


def run(ctx):
    if ctx.replay and "statements" in ctx.replay:
        hists = [(ctx.replay["statements"], set(ctx.replay.get("flushes", [])))]
    else:
        n = 14 if ctx.tier == "quick" else 150
        hists = [build_history(ctx.rng, ctx.tier, "manytables")] + [build_history(ctx.rng, ctx.tier) for _ in range(n - 1)]
    evs, outs, ccases, owner = run_all(ctx, hists)
    mm, sm = evaluate(ctx, "c03", ccases)
    partial = sum(1 for _, _, m in ccases if 0 < m["records"])
    torn = sum(1 for _, _, m in ccases if m["bytes"] % 4 == 0 and m["cut"] == "write")
    stmts_with_rootmove = 0
    nontrivial = len({(owner[i], m["stmt"], m["records"], m["bytes"]) for i, (_, _, m) in enumerate(ccases)
                      if m["records"] > 0 or m["bytes"] > 0})
    ctx.report.coverage.update({
        "evaluations": len(ccases),
        "distinct_nontrivial": nontrivial,
        "rule": "every write/sync call of every INSERT/UPDATE/DELETE of %d seeded histories is a crash point, under both "
                "cut rules; non-trivial = at least one byte of the statement's records survives (distinct by history, "
                "statement, surviving records and bytes)" % len(hists),
        "traces_validated_against_impl": len(ccases),
        "histories": len(hists),
        "crash_states_with_some_complete_record": partial,
        "recoveries_failed": sum(1 for _, _, m in ccases if m["recover"] != "ok"),
        "samples": [m for _, _, m in ccases[:: max(1, len(ccases) // 4)]][:4],
    })
    out = {"spec_violations": [], "model_mismatches": [],
           "correspondence_name": "EvCrashInLog (Model/Engine.v) vs recovery of the image cut inside the log append"}

    def describe(i, which):
        ev, ob, meta = ccases[i]
        hi = owner[i]
        sts, fl = hists[hi]
        # shrink the history in front of the crashing statement
        target = meta["stmt"]

        def fails(sub):
            try:
                e2, o2, cc2, _ = run_all(ctx, [(sub, set())])
                m2, s2 = evaluate(ctx, "c03_shrink", cc2)
            except RuntimeError:
                return False
            bad = m2 if which == "MM" else s2
            return bool(bad)
        small = sts
        if fails(sts):
            small = hist.ddmin(sts, fails, budget=30, keep_first=1)
        return {"statements": small, "flushes": [], "sql": [hist.sql_stmt(s) for s in small], "crash": meta,
                "what": "crash inside the log append of this statement: recovered state is not a row-prefix state, "
                        "or recovery failed, or later statements misbehave"}

    for i in sm[:1]:
        out["spec_violations"].append(describe(i, "SM"))
    for i in mm[:1]:
        out["model_mismatches"].append(describe(i, "MM"))
    return out
