"""C19 - CSV import stores every accepted record faithfully.
Drives cmd/csvimport doBatchInsert in-package against a real storage.RelationService (fresh
database per case), with colTypes from colDataTypes; the ok/error events in order of arrival and
SELECT * afterwards are compared with the Coq model (Model/Csv.v) and with the property
(Spec/CsvSpec.v). encoding/csv is an oracle: a second csv.Reader with identical settings over the
same bytes tells the model what the reader delivered."""
import vlib
from vlib import cq_list, cq_bool

PROP_FILES = ["Properties/C19.v"]
HARNESS = ["csvimport"]
ASSUMPTIONS = [
    "encoding/csv is an oracle: the model consumes the records / *csv.ParseError / other errors a csv.Reader "
    "with doBatchInsert's settings delivered for the same bytes",
    "the storage layer behind EvaluateInsert is abstract: a table is its list of rows in scan order, an accepted "
    "insert appends one row, a refused one changes nothing (C01/C14 territory); acceptance = insert_row in "
    "Model/Csv.v (column count, kind check, int32 range, encoded size <= 400), compared with the real storage on every case",
    "strconv.Atoi/ParseInt(.,10,64) and strings.ToLower are modelled (decimal syntax, int64 range; ASCII lowering) "
    "and compared with Go's results on the fields of every case",
    "source column indexes are natural numbers and len(srcCols) <= len(colTypes) (otherwise csvToSql panics in the "
    "import goroutine and the process dies: modelled as Panic, excluded by hypothesis no_panic)",
]

HEADER = """From Mkdb Require Import Model.CaseLib Model.Value Model.Csv Spec.CsvSpec.
Open Scope Z_scope.
Definition S (l : list N) : string := fold_right (fun n s => String (ascii_of_N n) s) EmptyString l.
"""

TYPES = ["int", "bigint", "varchar", "boolean"]
TY_COQ = {"int": "TInt", "bigint": "TBigInt", "varchar": "TVarchar", "boolean": "TBoolean"}
TY_CODE = {0: "TInt", 1: "TVarchar", 2: "TBoolean", 3: "TBigInt"}
SEPS = [",", ",", ";", "\t", "|"]

INT_GOOD = ["0", "1", "-1", "42", "+5", "007", "-0", "2147483647", "-2147483648", "123456", "-99"]
INT_EDGE = ["2147483648", "-2147483649", "9223372036854775807", "9223372036854775808", "-9223372036854775808",
            "-9223372036854775809", "99999999999999999999", "4294967296", "5000000000"]
INT_BAD = ["", "abc", "1_000", "0x10", "1e3", " 1", "1 ", "--1", "+-1", "+", "-", "12a", "1.0", "٣", "１", "1,5"]
BOOL_GOOD = ["1", "true", "t", "0", "false", "f", "TRUE", "True", "tRuE", "T", "F", "FALSE", "False", "fALSE"]
BOOL_BAD = ["yes", "no", "", "2", "tru", " true", "true ", "ｔ", "10", "tt", "-1", "null"]
WORDS = ["x", "hello", "Walter White", "", "a b", "ünï", "日本", "tab\there", "semi;colon", "pipe|d", "comma,ed",
         "quo\"te", "two\nlines", "\\n", "\\N ", " \\N", "\\n\\N", "N", "NULL", "''", "0", "true"]


# ---------------------------------------------------------------------------------------------
# generators
# ---------------------------------------------------------------------------------------------

def gen_field(rng, ty, row_budget):
    r = rng.random()
    if r < 0.10:
        return "\\N"
    if ty in ("int", "bigint"):
        if r < 0.80:
            if rng.chance(0.5):
                return rng.choice(INT_GOOD)
            return str(rng.randrange(-2147483648, 2147483648) if ty == "int" or rng.chance(0.3)
                       else rng.randrange(-2 ** 63, 2 ** 63))
        if r < 0.93:
            return rng.choice(INT_EDGE)
        return rng.choice(INT_BAD)
    if ty == "boolean":
        return rng.choice(BOOL_GOOD) if r < 0.93 else rng.choice(BOOL_BAD)
    if r < 0.88:
        return rng.choice(WORDS)
    if r < 0.96:
        return "v" * rng.randrange(max(1, row_budget - 12), row_budget + 12)     # around the 400 byte limit
    return rng.choice(["é" * rng.randrange(150, 220), "w" * 255, "z" * 500])


def csv_quote(f, sep, rng):
    need = (sep in f) or ('"' in f) or ("\n" in f) or ("\r" in f) or f == "" and rng.chance(0.3) \
        or f.startswith(" ") and rng.chance(0.5) or rng.chance(0.05)
    if need:
        return '"' + f.replace('"', '""') + '"'
    return f


def gen_import(rng, schema, tier):
    names = [c["name"] for c in schema]
    tyof = {c["name"]: c["type"] for c in schema}
    n = len(schema)
    mode = rng.choice(["identity", "identity", "subset", "reorder", "dups", "unknown", "short-src", "random"])
    if mode == "identity":
        dst = list(names)
    elif mode == "subset":
        dst = [x for x in names if rng.chance(0.6)] or [names[0]]
    elif mode == "reorder":
        dst = list(names)
        rng.shuffle(dst)
    elif mode == "dups":
        dst = [rng.choice(names) for _ in range(rng.randrange(2, n + 3))]
    elif mode == "unknown":
        dst = list(names)
        dst.insert(rng.randrange(0, len(dst) + 1), rng.choice(["zz", "C0", "c0 "]))
        if rng.chance(0.3):
            dst = [d for d in dst if d not in names[:1]]
    else:
        dst = [rng.choice(names) for _ in range(rng.randrange(1, n + 2))]
    width = max(len(dst), 1) + rng.randrange(0, 3)
    if mode in ("identity", "subset") and rng.chance(0.7):
        src = list(range(len(dst)))
    else:
        src = [rng.randrange(0, width) for _ in dst]
    if mode == "short-src" and len(names) > 1:
        dst = list(names)
        src = list(range(len(dst) - rng.randrange(1, len(dst))))      # fewer values than columns
    if rng.chance(0.03):
        dst, src = [], []
    types = []
    explicit_needed = False
    for d in dst:
        if d in tyof:
            types.append(tyof[d])
        else:
            explicit_needed = True
            types.append(rng.choice(TYPES))
    if explicit_needed:
        # the catalog lookup fails: the driver builds importCfg directly with these types; sometimes
        # give a known column a wrong type to reach the storage kind check
        known = [k for k, d in enumerate(dst) if d in tyof]
        if known and rng.chance(0.6):
            k = rng.choice(known)
            types[k] = rng.choice([t for t in TYPES if t != types[k]])
    # per source index, the destination types it feeds (to generate plausible fields)
    feed = {}
    for i, s in enumerate(src):
        feed.setdefault(s, []).append(types[i] if i < len(types) else "varchar")
    sep = rng.choice(SEPS)
    fixed = sum(1 + {"int": 4, "bigint": 8, "boolean": 1, "varchar": 4}[c["type"]] for c in schema)
    nrec = rng.randrange(1, 26 if tier == "quick" else 60)
    lines = []
    for _ in range(nrec):
        r = rng.random()
        w = width
        if r < 0.08:
            w = rng.randrange(0, max(1, max(src + [0]) + 1))           # short record
        elif r < 0.12:
            w = width + rng.randrange(1, 3)                           # long record / trailing separator
        fields = []
        for j in range(w):
            tys = feed.get(j)
            ty = rng.choice(tys) if tys else rng.choice(TYPES)
            if rng.chance(0.04):
                ty = rng.choice(TYPES)                                # wrong kind of text for the column
            fields.append(gen_field(rng, ty, 400 - fixed))
        text = sep.join(csv_quote(f, sep, rng) for f in fields)
        r = rng.random()
        if r < 0.04:
            k = rng.randrange(0, len(text) + 1)
            text = text[:k] + '"' + text[k:]                          # bare / unbalanced quote
        elif r < 0.06:
            text = text + sep                                         # trailing separator
        elif r < 0.08:
            text = ""                                                 # empty line
        elif r < 0.09:
            text = sep
        eol = "\r\n" if rng.chance(0.25) else "\n"
        lines.append((text + eol).encode("utf-8").hex())
    if lines and rng.chance(0.15):
        last = bytes.fromhex(lines[-1]).rstrip(b"\r\n")               # no newline at end of file
        lines[-1] = last.hex()
    im = {"dst": dst, "src": src, "sep": sep, "lines": lines, "fail_after": -1, "types": types, "mode": mode}
    if rng.chance(0.04):
        total = sum(len(l) // 2 for l in lines)
        im["fail_after"] = rng.randrange(0, total + 1)
    if rng.chance(0.02):
        im["sep"] = '"'                                               # invalid delimiter: reader error at once
    return im


def gen_case(rng, tier):
    n = rng.randrange(1, 7)
    tys = [rng.choice(TYPES) for _ in range(n)]
    if rng.chance(0.5):
        for t in TYPES:                                               # often all four types
            if len(tys) < 6 and t not in tys:
                tys.append(t)
        rng.shuffle(tys)
    schema = [{"name": "c%d" % i, "type": t} for i, t in enumerate(tys)]
    imports = [gen_import(rng, schema, tier) for _ in range(rng.choice([1, 1, 2]))]
    return {"schema": schema, "imports": imports}


def gen_flag_case(rng, tier):
    """the column mapping as the command line gives it (-dest-cols, -src-cols): built by the real
    makeConfig; mappings it must refuse (a negative index, more source than destination columns,
    an unknown destination column) and mappings it accepts (fewer source columns, a destination
    column named twice: every record is then refused)"""
    c = gen_case(rng, tier)
    im = c["imports"][0]
    c["imports"] = [im]
    names = [s["name"] for s in c["schema"]]
    k = rng.randrange(1, len(names) + 1)
    dst = names[:k]
    src = list(range(k))
    variant = rng.choice(["valid", "valid", "more-src", "negative", "fewer-src", "unknown-dst", "dup-dst"])
    if variant == "more-src":
        src = src + [rng.randrange(0, k) for _ in range(rng.randrange(1, 3))]
    elif variant == "negative":
        src[rng.randrange(k)] = -rng.randrange(1, 4)
    elif variant == "fewer-src" and k > 1:
        src = src[:-1]
    elif variant == "unknown-dst":
        dst = dst[:-1] + ["nosuchcol"]
    elif variant == "dup-dst" and k > 1:
        dst = dst[:-1] + [dst[0]]
    tyof = {s["name"]: s["type"] for s in c["schema"]}
    im.update({"dst": dst, "src": [max(0, s) for s in src], "types": [tyof.get(d, "int") for d in dst],
               "mode": "flags/" + variant, "fail_after": -1,
               "flags": {"dst": ",".join(dst), "src": ",".join(str(s) for s in src)}, "flag_src": src})
    if im["sep"] == '"':
        im["sep"] = ","
    return c


def gen_flag_sep_case(rng, tier):
    """a separator that is not ASCII, given as the -separator flag: the first CHARACTER of the flag separates"""
    c = gen_flag_case(rng, tier)
    im = c["imports"][0]
    old, new = im["sep"], rng.choice(["\u00a7", "\u00b6", "\u2016", "\u00e9"])
    lines = []
    for l in im["lines"]:
        t = bytes.fromhex(l).decode("utf-8", "replace")
        lines.append(t.replace(old, new).encode("utf-8").hex())
    im["lines"], im["sep"], im["mode"] = lines, new, im["mode"] + "/nonascii-sep"
    return c


def generate(rng, tier):
    n = 400 if tier == "quick" else 4000
    nf = 60 if tier == "quick" else 600
    return [gen_case(rng, tier) for _ in range(n)] + [gen_flag_case(rng, tier) for _ in range(nf)] + \
           [gen_flag_sep_case(rng, tier) for _ in range(nf // 4)]


# ---------------------------------------------------------------------------------------------
# Coq terms
# ---------------------------------------------------------------------------------------------

def cq_str(bs):
    """Coq string term for a byte string (S : list N -> string, see HEADER)"""
    if len(bs) <= 12 and all(32 <= b < 127 and b != 34 for b in bs):
        return '"%s"%%string' % bs.decode("ascii")
    return "(S [%s]%%N)" % ";".join("%d" % b for b in bs)


def hexs(h):
    return cq_str(bytes.fromhex(h))


def val_coq(v):
    if v is None:
        return "VNull"
    if "i" in v:
        return "(VInt (%s))" % v["i"]
    if "s" in v:
        return "(VStr %s)" % hexs(v["s"])
    if "b" in v:
        return "(VBool %s)" % cq_bool(v["b"])
    raise RuntimeError("unknown value kind from the driver: %r" % v)


EV = {"ok": "GOk", "err:malformed": "GErr ErrMalformed", "err:colcount": "GErr ErrColCount", "err:type": "GErr ErrType",
      "err:intrange": "GErr ErrIntRange", "err:toolarge": "GErr ErrTooLarge", "err:columns": "GErr ErrColumns"}


def import_coq(im, o):
    if o["cfg_route"] == "makeconfig:err":
        # the mapping was refused: nothing may have been imported (an import of no records)
        return "mkImport [] [] [] [] true [] [] %s []" % cq_list(cq_list(val_coq(v) for v in row) for row in o["table"])
    reader = []
    for e in o["reader"]:
        if e[0] == "rec":
            reader.append("RRecord %s" % cq_list(hexs(h) for h in e[1]))
        elif e[0] == "perr":
            reader.append("RParseErr")
        else:
            reader.append("ROtherErr")
    atoi = cq_list("(%s, %s)" % (hexs(h), "Some (%s)" % v if ok == "ok" else "None") for h, ok, v in o["atoi"])
    return "mkImport %s %s %s %s %s %s %s %s %s" % (
        cq_list(cq_str(d.encode()) for d in im["dst"]),
        cq_list("%d%%nat" % s for s in im["src"]),
        cq_list(TY_COQ[t] for t in im["types"]),
        cq_list(reader),
        cq_bool(o["cfg_route"] in ("catalog", "makeconfig")),
        cq_list(TY_CODE[t] for t in o["col_types"]),
        cq_list(EV.get(e, "GOther") for e in o["events"]),
        cq_list(cq_list(val_coq(v) for v in row) for row in o["table"]),
        atoi)


def case_coq(c, o):
    sch = cq_list('mkField %s %s 0' % (TY_COQ[s["type"]], cq_str(s["name"].encode())) for s in c["schema"])
    return "mkCase %s %s" % (sch, cq_list("(%s)" % import_coq(im, io) for im, io in zip(c["imports"], o["imports"])))


def driver_input(c):
    return {"schema": c["schema"],
            "imports": [dict({"dst": im["dst"], "src": im["src"], "sep": im["sep"], "csv": "".join(im["lines"]),
                              "fail_after": im["fail_after"], "types": im["types"]},
                             **({"flags": im["flags"]} if im.get("flags") else {})) for im in c["imports"]]}


DEAD = {"imports": None}


def evaluate(ctx, cases, name):
    ok, obs, lg = vlib.run_driver_parallel(ctx.bins["csvimport"], "csv", [driver_input(c) for c in cases], resilient=True)
    if not ok or len(obs) != len(cases):
        raise RuntimeError("csv driver failed: " + lg[-2000:])
    # a case on which the driver process died (a panic in the import goroutine cannot be recovered)
    dead = [i for i, o in enumerate(obs) if "_fatal" in o]
    live = [i for i in range(len(cases)) if i not in set(dead)]
    terms = [case_coq(cases[i], obs[i]) for i in live]
    defs = {"SM": "spec_accepts"}
    if ctx.model_ok:
        defs["MM"] = "model_agrees"
    okc, res, lg = vlib.run_coq_cases(name, HEADER, terms, "ccase", defs, shard=40)
    if not okc:
        raise RuntimeError("coq evaluation failed: " + lg[-3000:])
    mm = [live[j] for j in res.get("MM", [])]
    sm = dead + [live[j] for j in res["SM"]]
    # the makeConfig route: accepted iff the model accepts; an accepted mapping is safe
    fl = [i for i in live if cases[i]["imports"][0].get("flags")]
    if fl:
        cterms = []
        for i in fl:
            c, im, io = cases[i], cases[i]["imports"][0], obs[i]["imports"][0]
            sch = cq_list('mkField %s %s 0' % (TY_COQ[s["type"]], cq_str(s["name"].encode())) for s in c["schema"])
            cterms.append("(%s, %s, %s, %s)" % (sch, cq_list(cq_str(d.encode()) for d in im["dst"]),
                                                cq_list("(%d)%%Z" % s for s in im["flag_src"]),
                                                cq_bool(io["cfg_route"] == "makeconfig")))
        cdefs = {"SM": "config_safe"}
        if ctx.model_ok:
            cdefs["MM"] = "config_agrees"
        okc, cres, lg = vlib.run_coq_cases(name + "_cfg", HEADER, cterms, "config_case", cdefs, shard=200)
        if not okc:
            raise RuntimeError("coq evaluation failed: " + lg[-3000:])
        mm += [fl[j] for j in cres.get("MM", []) if fl[j] not in mm]
        sm += [fl[j] for j in cres["SM"] if fl[j] not in sm]
    for i in dead:
        obs[i] = {"imports": [{"events": ["<the import process died: %s>" % str(obs[i]["_fatal"])[-300:]], "table": [],
                               "reader": [], "cfg_route": "dead", "col_types": [], "atoi": []}
                              for _ in cases[i]["imports"]]}
    return obs, sorted(mm), sorted(sm)


def shrink(ctx, case, which):
    def fails(c):
        try:
            _, mm, sm = evaluate(ctx, [c], "c19_shrink")
        except RuntimeError:
            return False
        return bool(mm if which == "MM" else sm)
    budget = 45
    cur = case
    # a single import if possible
    if len(cur["imports"]) > 1:
        for k in range(len(cur["imports"])):
            cand = dict(cur, imports=[cur["imports"][k]])
            budget -= 1
            if fails(cand):
                cur = cand
                break
    for k in range(len(cur["imports"])):
        lines = list(cur["imports"][k]["lines"])
        chunk = max(1, len(lines) // 2)
        while chunk >= 1 and budget > 0:
            i = 0
            while i < len(lines) and budget > 0:
                cl = lines[:i] + lines[i + chunk:]
                ims = list(cur["imports"])
                ims[k] = dict(ims[k], lines=cl, fail_after=-1 if ims[k]["fail_after"] < 0 else ims[k]["fail_after"])
                cand = dict(cur, imports=ims)
                budget -= 1
                if cl and fails(cand):
                    lines, cur = cl, cand
                else:
                    i += chunk
            if chunk == 1:
                break
            chunk //= 2
    return cur


def readable(case):
    return [{"dst": im["dst"], "src": im["src"], "sep": im["sep"],
             "csv": b"".join(bytes.fromhex(l) for l in im["lines"]).decode("utf-8", "replace")} for im in case["imports"]]


def run(ctx):
    if ctx.replay and "case" in ctx.replay:
        cases = [ctx.replay["case"]]
    else:
        cases = generate(ctx.rng, ctx.tier)
    obs, mm, sm = evaluate(ctx, cases, "c19")
    stats = {"reader_records": 0, "reader_parse_errors": 0, "reader_other_errors": 0}
    evk, modes, routes = {}, {}, {}
    nontrivial, seen = 0, set()
    for c, o in zip(cases, obs):
        mixed = False
        for im, io in zip(c["imports"], o["imports"]):
            modes[im.get("mode", "replay")] = modes.get(im.get("mode", "replay"), 0) + 1
            routes[io["cfg_route"].split(":")[0]] = routes.get(io["cfg_route"].split(":")[0], 0) + 1
            for e in io["reader"]:
                k = {"rec": "reader_records", "perr": "reader_parse_errors", "oerr": "reader_other_errors"}[e[0]]
                stats[k] += 1
            for e in io["events"]:
                evk[e] = evk.get(e, 0) + 1
            oks = sum(1 for e in io["events"] if e == "ok")
            if oks and oks < len(io["events"]):
                mixed = True
        key = repr(driver_input(c))
        if mixed and key not in seen:
            seen.add(key)
            nontrivial += 1
    ctx.report.coverage.update({
        "evaluations": len(cases),
        "distinct_nontrivial": nontrivial,
        "rule": "a case (fresh table, 1-2 imports) is non-trivial when some import has both accepted and rejected "
                "records, so order/once-ness and 'a bad record does not disturb the others' are exercised; distinct by driver input",
        "traces_validated_against_impl": len(cases),
        "imports_run": sum(len(c["imports"]) for c in cases),
        "events_by_class": evk,
        "reader": stats,
        "mapping_modes": modes,
        "coltypes_route": routes,
        "schemas_with_all_four_types": sum(1 for c in cases if {s["type"] for s in c["schema"]} == set(TYPES)),
        "exhaustive": False,
        "samples": [{"schema": c["schema"], "imports": readable(c)[:1], "events": o["imports"][0]["events"][:8]}
                    for c, o in list(zip(cases, obs))[:: max(1, len(cases) // 2)][:2]],
    })
    out = {"spec_violations": [], "model_mismatches": [], "correspondence_name":
           "import/insert_row/col_data_types (Model/Csv.v) vs doBatchInsert + SELECT * on a real relation service"}
    for i in sm[:2]:
        small = shrink(ctx, cases[i], "SM")
        o2, _, _ = evaluate(ctx, [small], "c19_final")
        out["spec_violations"].append({
            "case": small, "readable": {"schema": small["schema"], "imports": readable(small)},
            "observed": [{"events": io["events"], "table": io["table"], "reader": io["reader"]} for io in o2[0]["imports"]],
            "expected": "table after = table before ++ the converted accepted records, once each, in input order; "
                        "one ok/err event per record, ok exactly for the accepted ones (Spec.CsvSpec.spec_accepts)",
            "what": "CSV import did not store exactly the accepted records",
            "replay_cmd": "python3 tools/check.py C19 --replay <this file>"})
    for i in mm[:2]:
        small = shrink(ctx, cases[i], "MM")
        o2, _, _ = evaluate(ctx, [small], "c19_final")
        out["model_mismatches"].append({"case": small, "readable": {"schema": small["schema"], "imports": readable(small)},
                                        "observed": [{"events": io["events"], "table": io["table"]} for io in o2[0]["imports"]]})
    return out
