"""C13 - the background flusher only ever sees statement boundaries.

Static part: tools/gen_protocol re-extracts the lock / change / log / page-write structure of the
statement entry points, flushPages, Close and the ticker goroutine from the Go source into
coq/Gen/Protocol.v; Properties/C13.v re-evaluates the verified checker on it
(C13_current_protocol_ok) and composes it with the schedule-quantified theorem C13_exclusion.

Dynamic part (harness/engine/zz_verif_race_test.go, built with -race): a real session against the
real 100 ms ticker.
  S1 oracle: statements parked for 350 ms (three ticks) after their first change / inside their
     log append; the data file must not move (mtime, size, content hash) while parked.
  S2 oracle: the race detector (GORACE log). Reports are classified by call-site signature:
     a report one of whose stacks goes through storage.(*fileStore).open or storage.CreateDB is
     OUTSIDE the property: those accesses belong to USE / CREATE DATABASE (opening or creating a
     store), which run before any statement on that store and are not among the five statement
     kinds the property quantifies over. On the unchanged tree exactly that report exists: USE
     followed by >= 100 ms without a statement - OpenRelation starts the ticker goroutine and then
     fileStore.open() fills lastKey/pageTableRoot/nextFreeOffset/_nextLSN without the lock; the
     first tick's save() reads them 100 ms later with no happens-before edge (the edge only
     appears with the session's first RLock/RUnlock). It is recorded in the evidence
     (races_outside_property) and not counted as a violation of C13.
  Correspondence: the call sequences the real Evaluate* functions make on their RelationManager
     (normal and failing paths) must be paths of the extracted protocols (is_path, inside Coq).
"""
import glob
import json
import os
import re
import tempfile
import shutil
import time
from concurrent.futures import ThreadPoolExecutor

import vlib
from vlib import cq_list

PROP_FILES = ["Properties/C13.v"]
HARNESS = ["engine", "storage"]   # engine: non-race fallback binary (the race binary is built in run()); storage: c13body
ASSUMPTIONS = [
    "PARTIAL: the theorem is about the lock protocol extracted from the source running on a model of "
    "sync.RWMutex; the Go memory model, the runtime and the compiled code are not modelled",
    "the calls classified Mutate/CacheTouch/PageWrite/HeaderWrite touch only state protected by fileStore.mtx "
    "(checked dynamically by the race detector on the explored runs, not proved)",
    "one session goroutine per fileStore (as in cmd/console); two concurrent sessions sharing the lock in "
    "shared mode are outside the model",
    "tools/gen_protocol (go/parser + go/ast, no type information) resolves receivers by declared type names",
]
TRUSTED_EXTRA = [
    "translator tools/gen_protocol (go/ast) producing coq/Gen/Protocol.v",
    "Go race detector (ThreadSanitizer runtime) as the oracle for unsynchronised access on the explored runs",
]

GEN_DIR = os.path.join(vlib.VERIF, "tools", "gen_protocol")
OUTSIDE_FRAMES = ("storage.(*fileStore).open()", "storage.CreateDB()")
HARNESS_MARK = "zz_verif_"

CALL_ACTION = {"StartTxn": "LockShared", "EndTxn": "UnlockShared", "Fetch": "CacheTouch",
               "CheckInsert": "CacheTouch", "CheckUpdate": "CacheTouch",
               "Insert": "Mutate", "Update": "Mutate", "MarkDeleted": "Mutate",
               "FlushWALBatch": "LogAppend"}
KIND_PROTO = {"select": "proto_select", "insert": "proto_insert", "update": "proto_update",
              "delete": "proto_delete"}


# ----------------------------------------------------------------------------------------------
# static part
# ----------------------------------------------------------------------------------------------

def io_census(tlog):
    sites = sorted(set(l[7:] for l in tlog.splitlines() if l.startswith("IOSITE ")))
    esc = sorted(set(l[9:] for l in tlog.splitlines() if l.startswith("IOESCAPE ")))
    return {"file_handle_uses": sites, "escapes_counted_as_write_sites": esc}


def run_translator():
    rc, out = vlib.sh(["go", "run", ".", "-repo", vlib.REPO, "-out", os.path.join(vlib.COQ, "Gen")],
                      cwd=GEN_DIR, env=vlib.GOENV, timeout=300)
    protos, classes, changed = {}, {}, None
    for line in out.splitlines():
        if line.startswith("PROTO "):
            name, _, body = line[6:].partition(" = ")
            protos[name] = body
        elif line.startswith("CLASS "):
            parts = line.split()
            classes[parts[1]] = parts[2]
        elif line.startswith("CHANGED "):
            changed = line.split()[1] == "true"
    return rc == 0, protos, classes, changed, out


def recheck_coq(ctx, translator_ok, translator_log):
    """Rebuild after Protocol.v was regenerated and recompute this property's proof status
    (check.py built the development BEFORE the translator ran)."""
    cone = vlib.coq_cone(PROP_FILES)
    if "Gen/Protocol.v" not in cone:
        cone.append("Gen/Protocol.v")
    cb = vlib.build_coq(only=cone)
    failed = [f for f in cb.failed_files if f in cone]
    broken = [b for b in ctx.proof_broken if b.startswith("hygiene")]
    if not translator_ok:
        broken.append("tools/gen_protocol could not extract the protocol from the source: " +
                      translator_log.strip()[-600:])
    n_closed, axioms, pa_ok = 0, [], True
    n_expected = sum(vlib.count_print_assumptions(f) for f in PROP_FILES)
    if failed:
        broken.append("Coq files no longer compile: %s" % ", ".join(failed))
    else:
        for f in PROP_FILES:
            ok, n, ax, _ = vlib.print_assumptions(f)
            pa_ok = pa_ok and ok
            n_closed += n
            axioms += ax
        if not pa_ok or n_closed + len(axioms) < n_expected:
            broken.append("Print Assumptions output incomplete (%d of %d)" % (n_closed + len(axioms), n_expected))
        if axioms:
            broken.append("unexpected axioms: %s" % axioms)
    total, done, names = vlib.count_obligations(cone, failed)
    ctx.proof_broken[:] = broken
    ctx.coq_log = cb.log
    ctx.model_ok = not any(f.startswith(("Model/", "Spec/", "Gen/")) for f in failed)
    ctx.report.coverage.update({
        "obligations": total,
        "discharged": done if not broken else max(0, done - 1),
        "property_theorems_closed_under_global_context": n_closed,
        "print_assumptions_expected": n_expected,
        "assumptions_printed": axioms,
        "coq_cone_files": sorted(cone),
        "theorem_names": [n for n in names if n.startswith("C13")],
    })
    return failed, cb


def evaluate_io():
    """which classified callees / write sites break the soundness conditions of Spec/IoSpec.v on the census
    regenerated from the source (independent of Properties/C13.v)"""
    text = """From Coq Require Import List String.
From Mkdb Require Import Spec.IoSpec Gen.IoSites.
Import ListNotations.
Local Open Scope string_scope.
Definition io_verdict := Eval vm_compute in io_classification_ok io_sites reaches_data_write reaches_log_write reaches_lock_op classified.
Print io_verdict.
Definition bad_classes := Eval vm_compute in
  map (fun fc => (fst fc, snd fc, lookup (fst fc) reaches_data_write, lookup (fst fc) reaches_log_write, lookup (fst fc) reaches_lock_op))
      (filter (fun fc => negb (class_ok reaches_data_write reaches_log_write reaches_lock_op fc)) classified).
Print bad_classes.
Definition bad_sites := Eval vm_compute in filter (fun s => negb (site_ok classified s)) io_sites.
Print bad_sites.
"""
    rc, out = vlib.run_coq_text("c13_io", text, timeout=300)
    ok = rc == 0 and re.search(r"io_verdict\s*=\s*true", out) is not None
    detail = " ".join(out.split())
    m = re.search(r"bad_classes = (.*?) : list", detail)
    m2 = re.search(r"bad_sites = (.*?) : list", detail)
    return rc == 0, ok, {"callees_breaking_their_class": m.group(1) if m else "?",
                         "write_sites_outside_their_class": m2.group(1) if m2 else "?"}


def evaluate_checker():
    """which extracted program does the checker reject (independent of Properties/C13.v)"""
    text = """From Coq Require Import List String.
From Mkdb Require Import Model.Sched Spec.SchedSpec Gen.Protocol.
Import ListNotations.
Local Open Scope list_scope.
Definition verdicts := Eval vm_compute in
  (map (fun np => (fst np, well_bracketed (snd np))) all_statement_protocols ++
   [("close"%string, well_bracketed proto_close); ("session_close"%string, well_bracketed proto_session_close);
    ("flush"%string, flusher_ok proto_flush); ("ticker"%string, flusher_ok proto_ticker)]).
Print verdicts.
"""
    rc, out = vlib.run_coq_text("c13_checker", text, timeout=300)
    res = {}
    if rc == 0:
        for m in re.finditer(r'\(\s*"(\w+)"(?:%string)?,\s*(true|false)\)', out):
            res[m.group(1)] = m.group(2) == "true"
    return rc == 0, res, out


# ----------------------------------------------------------------------------------------------
# dynamic part
# ----------------------------------------------------------------------------------------------

def parse_races(text):
    """-> list of {"accesses":[{"op":..,"frames":[(func, loc)..]}, ..]} for every DATA RACE block"""
    races = []
    for block in text.split("=================="):
        if "WARNING: DATA RACE" not in block:
            continue
        accesses = []
        for sec in re.split(r"\n\s*\n", block.strip()):
            lines = [l for l in sec.splitlines() if l.strip() and "WARNING: DATA RACE" not in l]
            if not lines:
                continue
            head = lines[0].strip()
            if not re.match(r"(Read|Write|Previous read|Previous write|Atomic \w+|Previous atomic \w+) at ", head):
                continue
            frames = []
            i = 1
            while i < len(lines):
                fn = lines[i].strip()
                loc = lines[i + 1].strip().split(" +0x")[0] if i + 1 < len(lines) else ""
                frames.append((fn, loc))
                i += 2
            accesses.append({"op": head.split(" at ")[0], "by": head.split(" by ")[-1].rstrip(":"), "frames": frames})
        races.append({"accesses": accesses[:2]})
    return races


def top_mkdb_frame(acc):
    for fn, loc in acc["frames"]:
        if "mk6i/mkdb" in fn and HARNESS_MARK not in loc:
            return "%s %s" % (fn.replace("github.com/mk6i/mkdb/", ""), os.path.basename(loc))
    return None


def classify_race(r):
    funcs = [fn for a in r["accesses"] for fn, _ in a["frames"]]
    if any(fn.endswith(o) for fn in funcs for o in OUTSIDE_FRAMES):
        return "outside"
    return "inside"


def race_signature(r):
    return " <-> ".join("%s %s" % (a["op"], top_mkdb_frame(a) or "?") for a in r["accesses"])


def run_one(binp, cfg, timeout=240):
    wd = tempfile.mkdtemp(prefix="verif_c13_")
    try:
        env = {"GORACE": "log_path=%s exitcode=66 halt_on_error=0" % os.path.join(wd, "race.log")}
        t0 = time.time()
        ok, outs, lg = vlib.run_driver(binp, "race", [cfg], timeout=timeout, extra_env=env, workdir=wd)
        racetxt = ""
        for f in glob.glob(os.path.join(wd, "race.log*")):
            racetxt += open(f, errors="replace").read()
        # without log_path support the report is on stderr
        if "WARNING: DATA RACE" in lg:
            racetxt += lg
        return {"cfg": cfg, "exit_ok": ok, "steps": outs, "races": parse_races(racetxt), "log": lg[-1500:],
                "wall": round(time.time() - t0, 1)}
    finally:
        shutil.rmtree(wd, ignore_errors=True)


def parked_writes(res):
    bad = []
    for s in res["steps"]:
        for p in s.get("parks", []):
            if p["mtime_changed"] or p["size_changed"] or p["content_changed"]:
                bad.append({"kind": s["kind"], "sql": s["sql"], "park": p})
    return bad


def completed(res):
    return any(s.get("kind") == "close" for s in res["steps"])


def calls_term(step):
    acts = [CALL_ACTION[c] for c in step["calls"] if c in CALL_ACTION]
    return "(%s, %s)" % (KIND_PROTO[step["kind"]], cq_list(acts))


HEADER = """From Mkdb Require Import Model.CaseLib Model.Sched Spec.SchedSpec Gen.Protocol.
"""


def configs(tier, search):
    base = [
        {"park_ms": 350, "tables": 30, "pace_ms": 15, "rows": 9, "idle_after_use_ms": 250, "tag": "a"},
        {"park_ms": 350, "tables": 30, "pace_ms": 40, "rows": 6, "idle_after_use_ms": 0, "tag": "b"},
    ]
    if tier == "thorough" or search:
        base += [
            {"park_ms": 450, "tables": 40, "pace_ms": 7, "rows": 15, "idle_after_use_ms": 0, "tag": "c"},
            {"park_ms": 350, "tables": 30, "pace_ms": 60, "rows": 9, "idle_after_use_ms": 120, "tag": "d"},
            {"park_ms": 250, "tables": 60, "pace_ms": 25, "rows": 12, "idle_after_use_ms": 0, "tag": "e"},
        ]
    if tier == "thorough":
        base += [
            {"park_ms": 700, "tables": 30, "pace_ms": 95, "rows": 9, "idle_after_use_ms": 0, "tag": "f"},
            {"park_ms": 350, "tables": 90, "pace_ms": 3, "rows": 30, "idle_after_use_ms": 0, "tag": "g"},
            {"park_ms": 350, "tables": 30, "pace_ms": 110, "rows": 12, "idle_after_use_ms": 330, "tag": "h"},
        ]
    return base


def small_cfg(kind):
    return {"park_ms": 350, "tables": 4, "pace_ms": 30, "rows": 1, "idle_after_use_ms": 0, "tag": "r",
            "only": kind}


def run(ctx):
    cov = ctx.report.coverage
    # ---- 1. translator + re-check of the static obligation --------------------------------
    tok, protos, classes, changed, tlog = run_translator()
    failed, cb = recheck_coq(ctx, tok, tlog)
    okc, verdicts, vlog = evaluate_checker() if tok else (False, {}, "")
    rejected = sorted(k for k, v in verdicts.items() if not v)
    if rejected:
        ctx.proof_broken.insert(0, "C13_current_protocol_ok fails: well_bracketed/flusher_ok = false for the protocol "
                                "extracted from the source of: %s (%s)" % (
                                    ", ".join(rejected),
                                    "; ".join("%s = %s" % (k, protos.get("proto_" + k, "?")) for k in rejected)))
    io_ran, io_ok, io_detail = evaluate_io() if tok else (False, False, {})
    if tok and not io_ok:
        ctx.proof_broken.insert(0, "C13_classification_sound fails: a callee that the protocol extraction treats as not "
                                "writing / not locking can reach a write of the data file or the log or an operation on "
                                "fileStore.mtx, or a write / lock site lies outside the classified functions: %s" % json.dumps(io_detail))
    search = bool(ctx.proof_broken)

    # ---- 2. dynamic run ----------------------------------------------------------------------
    okb, race_bin, blog = vlib.build_go("engine", race=True)
    race_mode = okb
    if not okb:
        race_bin = ctx.bins["engine"]
        ctx.report.notes.append("race build impossible here, S2 oracle not available: " + blog[-300:])
    if ctx.replay and "case" in ctx.replay:
        cfgs = [ctx.replay["case"]]
    else:
        cfgs = configs(ctx.tier, search)
    with ThreadPoolExecutor(max_workers=len(cfgs)) as ex:
        results = list(ex.map(lambda c: run_one(race_bin, c), cfgs))

    out = {"spec_violations": [], "model_mismatches": [],
           "correspondence_name": "call sequences of the real Evaluate* functions vs the extracted protocols (is_path)"}

    incomplete = [r for r in results if not completed(r)]
    if incomplete:
        if not ctx.proof_broken:
            raise RuntimeError("race driver did not finish: " + incomplete[0]["log"])
        # the static obligation is already broken (e.g. a callee now locks): a statement that never returns is
        # C18's subject; the runs that finished are still judged
        ctx.report.notes.append("race driver did not finish in %d of %d configurations (a statement hung)" % (len(incomplete), len(results)))
        results = [r for r in results if completed(r)]

    # S1: writes while parked
    s1 = [(r, w) for r in results for w in parked_writes(r)]
    # S2: race reports
    inside, outside = [], []
    for r in results:
        for rc in r["races"]:
            (inside if classify_race(rc) == "inside" else outside).append((r, rc))
    # a non-zero exit that is not explained by race reports is a driver failure
    for r in results:
        if not r["exit_ok"] and not r["races"]:
            raise RuntimeError("race driver failed: " + r["log"])

    # ---- 2b. statement bodies never write the data file (timer off, file compared around every body) ----
    body_cfg = {"tables": 9 if ctx.tier == "quick" else 16, "rows": 24 if ctx.tier == "quick" else 120}
    # the same with page caches of 12 / 20 / 40 pages and no flush between the rows: the statement's dirty set fills
    # the cache (no clean page left to evict) - the body may fail with ErrLRUCacheFull but must not write
    body_cfgs = [body_cfg] + [{"tables": 2, "rows": 60 if ctx.tier == "quick" else 200, "cache": cap, "flush_every": 0}
                              for cap in (12, 20, 40)]
    okb2, bouts, blg = vlib.run_driver(ctx.bins["storage"], "c13body", body_cfgs)
    if not okb2 or len(bouts) != len(body_cfgs) or any(b.get("err") for b in bouts):
        raise RuntimeError("c13body driver failed: " + (blg[-1500:] if len(bouts) != len(body_cfgs)
                                                         else str([b.get("err") for b in bouts])))
    body_steps = [dict(s, cfg=cfg) for cfg, b in zip(body_cfgs, bouts) for s in b["steps"]]
    body_writes = [s for s in body_steps if s["changed"]]
    cache_full = sum(1 for s in body_steps if "cache" in (s.get("err") or "").lower())

    # ---- 3. correspondence: observed call sequences are paths of the extracted protocols --------
    traced = [s for r in results for s in r["steps"]
              if s["phase"] in ("traced", "parked") and s["kind"] in KIND_PROTO and not s.get("panic")
              and len(s["calls"]) <= 120]     # the backtracking matcher is a test oracle: long traces (the
                                              # 260-row INSERT held open for the park) are left to the S1 oracle
    mm = []
    if traced and ctx.model_ok and tok:
        terms = [calls_term(s) for s in traced]
        okq, res, lg = vlib.run_coq_cases("c13", HEADER, terms, "prog * list action",
                                          {"MM": "fun c => is_path (fst c) (snd c)"}, shard=400)
        if not okq:
            raise RuntimeError("coq evaluation failed: " + lg[-2000:])
        mm = res["MM"]
    for i in mm[:2]:
        out["model_mismatches"].append({"sql": traced[i]["sql"], "calls": traced[i]["calls"],
                                        "protocol": protos.get(KIND_PROTO[traced[i]["kind"]])})

    # ---- 4. violations with a small replay ---------------------------------------------------------
    seen_kinds = set()
    for r, w in s1:
        if w["kind"] in seen_kinds or len(out["spec_violations"]) >= 2:
            continue
        seen_kinds.add(w["kind"])
        case, obs = r["cfg"], w
        if not ctx.replay:
            small = run_one(race_bin, small_cfg(w["kind"]))
            sw = [x for x in parked_writes(small) if x["kind"] == w["kind"]]
            if sw:
                case, obs = small["cfg"], sw[0]
        out["spec_violations"].append({
            "case": case, "observed": obs,
            "what": "the data file was written while a %s statement was parked at '%s' (between its first change "
                    "and the completion of its log append)" % (obs["kind"].upper(), obs["park"]["point"]),
            "expected": "no mtime/size/content change of data/<db>/tbl during the %d ms park" % obs["park"]["ms"],
            "replay_cmd": "python3 tools/check.py C13 --replay <this file>"})
    for s in body_writes[:1]:
        out["spec_violations"].append({
            "case": {"c13body": s.get("cfg", body_cfg)}, "observed": s,
            "what": "the data file was written inside the shared-lock part of a statement (%s): only flushPages, under the "
                    "exclusive lock, may write it" % s["what"],
            "expected": "data file unchanged (size and SHA-256) across createTable / Insert / Update / MarkDeleted / FlushWALBatch",
            "replay_cmd": "python3 tools/check.py C13"})
    sigs = {}
    for r, rc in inside:
        sigs.setdefault(race_signature(rc), (r, rc))
    if sigs and not ctx.replay:
        # smaller replay: few tables and rows, no parked phase; kept when it still shows a race
        small = run_one(race_bin, {"park_ms": 350, "tables": 8, "pace_ms": 35, "rows": 3,
                                   "idle_after_use_ms": 0, "tag": "r", "skip_parked": True})
        ssigs = {}
        for rc in small["races"]:
            if classify_race(rc) == "inside":
                ssigs.setdefault(race_signature(rc), (small, rc))
        if ssigs:
            sigs = ssigs
    for sig, (r, rc) in list(sigs.items())[:max(0, 3 - len(out["spec_violations"]))]:
        out["spec_violations"].append({
            "case": r["cfg"],
            "observed": {"data_race": sig,
                         "stacks": [{"op": a["op"], "by": a["by"],
                                     "frames": ["%s %s" % f for f in a["frames"] if "mk6i/mkdb" in f[0]][:8]}
                                    for a in rc["accesses"]]},
            "what": "race detector: unsynchronised access to shared page/cache state: " + sig,
            "expected": "no DATA RACE report outside database open/creation",
            "replay_cmd": "python3 tools/check.py C13 --replay <this file>"})

    # ---- 5. evidence ---------------------------------------------------------------------------------
    steps = [s for r in results for s in r["steps"]]
    kinds = {}
    for s in steps:
        if s["phase"] in ("racing", "parked", "traced"):
            key = "%s/%s" % (s["phase"], s["kind"])
            kinds[key] = kinds.get(key, 0) + 1
    parks = [(s["kind"], p["point"]) for r in results for s in r["steps"] for p in s.get("parks", [])]
    alive = sum(1 for s in steps if s["phase"] == "idle" and s.get("idle_mtime_changed"))
    idle = sum(1 for s in steps if s["phase"] == "idle")
    distinct_paths = len(set((s["kind"], tuple(s["calls"])) for s in traced))
    cov.update({
        "evaluations": len(steps),
        "distinct_nontrivial": len(set(parks)) + distinct_paths,
        "rule": "non-trivial = (statement kind, park point) pairs at which a real statement was held open for "
                ">= 3 ticker periods with the data file watched, plus distinct (kind, RelationManager call "
                "sequence) pairs checked against the extracted protocol; racing statements are counted in "
                "statement_counts",
        "traces_validated_against_impl": len(traced),
        "statement_counts": kinds,
        "parks": len(parks),
        "park_points": sorted(set("%s@%s" % p for p in parks)),
        "writes_seen_while_parked": len(s1),
        "statement_bodies_compared_with_timer_off": len(body_steps),
        "statement_bodies_that_wrote_the_data_file": len(body_writes),
        "statement_bodies_refused_with_a_full_cache_of_dirty_pages": cache_full,
        "ticker_alive_in_idle_windows": "%d of %d" % (alive, idle),
        "race_detector": "on (-race, GORACE halt_on_error=0)" if race_mode else "UNAVAILABLE (non-race fallback)",
        "race_reports_inside_property": len(inside),
        "races_outside_property": sorted(set(race_signature(rc) for _, rc in outside)),
        "races_outside_property_count": len(outside),
        "races_outside_property_why": "one stack goes through fileStore.open / CreateDB: USE and CREATE DATABASE "
                                      "are not statements the property quantifies over (see module docstring)",
        "configs": cfgs,
        "driver_wall_s": [r["wall"] for r in results],
        "translator_changed_protocol_file": changed,
        "checker_verdicts": verdicts,
        "io_classification_sound": io_ok,
        "io_census": io_census(tlog),
        "call_classification": classes,
        "exhaustive": False,
        "samples": [{"protocol": k, "extracted": v} for k, v in sorted(protos.items())],
    })
    return out
