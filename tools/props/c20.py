"""C20 - the console submits exactly the statements that were typed.
Drives cmd/console Terminal.ReadLine in-package over chunked byte streams; compares what the
successive ReadLine calls returned with the Coq model (Model/Console.v: byte level always,
key level for in-scope cases) and with the property (Spec/ConsoleSpec.v: the statements
submitted are exactly the normalised typed statements, in order)."""
import vlib
from vlib import cq_list, cq_bool

PROP_FILES = ["Properties/C20.v"]
HARNESS = ["console"]
ASSUMPTIONS = [
    "theorems are stated over decoded keys; the UTF-8/escape-sequence decoding (bytesToKey) and the 256-byte "
    "read buffer are modelled and compared with Go on every case; proved only per key: printable ASCII, CR and the "
    "two paste markers decode to the keys of the theorem, a cut marker waits for the next Read",
    "editing/history keys (Backspace, ^U, ^W, ^K, ^L, arrows, Home/End) are outside the quantifier: the cursor is at the end of the line",
    "string literals contain no line break (an Enter inside a literal is entered as a space by the console); backslash "
    "escapes inside literals are in scope",
    "strings.TrimSpace = trimming unicode.IsSpace runes on both ends; []rune->string maps surrogates to U+FFFD",
]

HEADER = """From Mkdb Require Import Model.CaseLib Model.Console Spec.ConsoleSpec.
Open Scope N_scope.
"""

PS = [27, 91, 50, 48, 48, 126]
PE = [27, 91, 50, 48, 49, 126]
KPS, KPE, ENTER = 55314, 55315, 13

WORDS = ["SELECT", "INSERT", "INTO", "VALUES", "FROM", "WHERE", "UPDATE", "SET", "DELETE", "CREATE", "TABLE",
         "AND", "OR", "ORDER", "BY", "LIMIT", "USE", "DATABASE", "varchar(255)", "int", "*", ",", "(", ")", "=",
         "<>", ">=", "t", "name", "a.b", "42", "3", "c0", "//x", "-", "t1.id"]
BODY = [";", " ", "  ", "a", "b;c", "it", "OTHER", "--", "(", ")", ",", "é", "中", "\U0001F600", " ",
        "select", "x;y;", ";;", " ;", "; ", "OTHER;OTHER", "　", "~", "z", "\ufffd", "a\ufffdb",
        # code points that are not "graphic": format characters (ZWNJ, ZWJ, soft hyphen, BOM, LRM), line / paragraph
        # separators, C1 controls, private use, a tag character, the last code point, an unassigned one -
        # typed or pasted they are part of the literal like any other character
        "\u200c", "می\u200cخواهم", "\U0001F468\u200d\U0001F469", "co\u00adop", "\ufeff", "\u200e", "\u2028", "\u2029",
        "\u0085", "\u009f", "\ue000", "\U000e0001", "\U0010ffff", "\u0378"]


# ---------------------------------------------------------------------------------------------
# generators
# ---------------------------------------------------------------------------------------------

def gen_literal(rng):
    q = rng.choice("'\"")
    other = '"' if q == "'" else "'"
    pieces = [rng.choice(BODY).replace("OTHER", other) for _ in range(rng.randrange(0, 5))]
    if rng.chance(0.3):
        # backslash escapes inside the literal (in scope since the theorems cover them): the escaped rune
        # never closes the literal and never ends the statement
        for _ in range(rng.randrange(1, 3)):
            pieces.insert(rng.randrange(0, len(pieces) + 1), rng.choice(["\\" + q, "\\\\", "\\;", "\\" + other, "\\n"]))
    return q + "".join(pieces) + q


def gen_statement(rng):
    """returns a list of (text, is_literal) segments ending with ';'"""
    segs = []
    if rng.chance(0.15):
        segs.append((" " * rng.randrange(1, 3), False))
    n = rng.randrange(1, 8)
    for i in range(n):
        if rng.chance(0.3):
            segs.append((gen_literal(rng), True))
        else:
            segs.append((rng.choice(WORDS), False))
        if i + 1 < n:
            segs.append((rng.choice([" ", " ", " ", "  ", "", "   "]), False))
    segs.append((rng.choice(["", "", " "]) + ";", False))
    return segs


def gen_script(rng, nstmts):
    """list of units: (segments of the statement, separator string of spaces)"""
    units = []
    for _ in range(nstmts):
        units.append((gen_statement(rng), rng.choice(["", "", " ", "  ", " ", " ", "\u00a0", " \u3000"])))
    return units


def script_positions(units):
    """flatten to a list of (codepoint, unit index, in_sep, in_literal_interior)
    plus the list of legal break positions (index i = before element i; len = at the very end)"""
    elems = []
    for ui, (segs, sep) in enumerate(units):
        for text, lit in segs:
            for j, ch in enumerate(text):
                elems.append((ord(ch), ui, False, lit, lit and j > 0))
        for ch in sep:
            elems.append((ord(ch), ui, True, False, False))
    return elems


def layout(units, breaks):
    """breaks: dict position -> number of Enters inserted before element `position`
    (position == len(elems) means after the last element). Returns the units as
    (m, sep) key lists with 13 marking breaks; a break before an element of a statement
    belongs to that statement, a break before a separator element or at the end of a unit
    belongs to the separator of the unit it follows."""
    elems = script_positions(units)
    out = [([], []) for _ in units]
    for i, (cp, ui, insep, lit, inside) in enumerate(elems):
        nb = breaks.get(i, 0)
        if nb:
            if insep:
                out[ui][1].extend([ENTER] * nb)
            else:
                # first element of a statement: the break follows the previous unit's ';'/separator
                first = (i == 0) or (elems[i - 1][1] != ui)
                if first and ui > 0:
                    out[ui - 1][1].extend([ENTER] * nb)
                else:
                    out[ui][0].extend([ENTER] * nb)
        (out[ui][1] if insep else out[ui][0]).append(cp)
    nb = breaks.get(len(elems), 0)
    if nb and units:
        out[-1][1].extend([ENTER] * nb)
    return [[m, s] for m, s in out]


def legal_positions(units):
    elems = script_positions(units)
    pos = [i for i, e in enumerate(elems) if not e[4]]     # not strictly inside a literal
    pos.append(len(elems))
    return pos, elems


def utf8(cp):
    return list(chr(cp).encode("utf-8"))


def encode_keys(keys):
    out = []
    for k in keys:
        if k == KPS:
            out += PS
        elif k == KPE:
            out += PE
        else:
            out += utf8(k)
    return out


def deliver(pcs):
    ks = []
    for p, items in pcs:
        ks += ([KPS] + items + [KPE]) if p else items
    return ks


def chunk_bytes(rng, bs, mode):
    if mode == "one" or len(bs) < 2:
        return [bs]
    if mode == "bytes":
        return [[b] for b in bs]
    n = rng.randrange(1, 6)
    cuts = sorted(set(rng.randrange(1, len(bs)) for _ in range(n)))
    out, prev = [], 0
    for c in cuts + [len(bs)]:
        out.append(bs[prev:c])
        prev = c
    if rng.chance(0.2):
        out.insert(rng.randrange(0, len(out) + 1), [])      # an empty Read
    return out


def make_pcs(rng, items, mode):
    if mode == "typed":
        return [[False, items]]
    if mode == "pasted":
        return [[True, items]]
    n = rng.randrange(1, 5)
    cuts = sorted(set(rng.randrange(0, len(items) + 1) for _ in range(n)))
    pcs, prev = [], 0
    for c in cuts + [len(items)]:
        pcs.append([rng.chance(0.5), items[prev:c]])
        prev = c
    return pcs


def inscope_case(rng, units, breaks, dmode, cmode, kind):
    us = layout(units, breaks)
    items = [k for m, s in us for k in m + s]
    pcs = make_pcs(rng, items, dmode)
    bs = encode_keys(deliver(pcs) + [ENTER])
    return {"kind": kind, "chunks": chunk_bytes(rng, bs, cmode), "script": {"units": us, "pcs": pcs}}


def gen_inscope(rng, tier):
    cases = []
    nshort, nlong = (45, 500) if tier == "quick" else (400, 6000)
    # every single break position of short scripts, typed and pasted alternately
    for i in range(nshort):
        units = gen_script(rng, rng.randrange(1, 4))
        pos, elems = legal_positions(units)
        if len(elems) > 70:
            units = units[:1]
            pos, elems = legal_positions(units)
        cases.append(inscope_case(rng, units, {}, "typed", "one", "one-line"))
        cases.append(inscope_case(rng, units, {}, "pasted", "random", "one-line"))
        for j, p in enumerate(pos):
            dmode = ["typed", "pasted", "mixed"][(i + j) % 3]
            cases.append(inscope_case(rng, units, {p: 1}, dmode, rng.choice(["one", "random"]), "single-break"))
    # longer scripts, several statements per line, random multi-break layouts
    for i in range(nlong):
        units = gen_script(rng, rng.randrange(1, 6))
        pos, elems = legal_positions(units)
        style = rng.choice(["line-per-stmt", "random", "random", "dense", "space-breaks", "one-line"])
        breaks = {}
        if style == "line-per-stmt":
            for k in range(1, len(elems) + 1):
                if elems[k - 1][0] == 59 and not elems[k - 1][3]:
                    breaks[k] = 1
        elif style == "space-breaks":
            for p in pos:
                if p < len(elems) and elems[p][0] == 32 and not elems[p][3] and rng.chance(0.6):
                    breaks[p] = 1
        elif style != "one-line":
            pr = 0.08 if style == "random" else 0.4
            for p in pos:
                if rng.chance(pr):
                    breaks[p] = rng.choice([1, 1, 1, 2, 3])
        cases.append(inscope_case(rng, units, breaks, rng.choice(["typed", "pasted", "mixed"]),
                                  rng.choice(["one", "random", "random", "bytes"]), "multi-" + style))
    # statements longer than 4096 runes, typed on one line or across several: until /repo removed
    # maxLineLength the console dropped every typed key beyond the 4096th silently
    for i in range(3 if tier == "quick" else 12):
        segs = []
        total = 0
        target = rng.choice([4097, 4200, 5000, 9000])
        while total < target:
            if rng.chance(0.3):
                t = (gen_literal(rng), True)
            else:
                t = (rng.choice(WORDS), False)
            segs += [t, (" ", False)]
            total += len(t[0]) + 1
        segs.append((";", False))
        units = [(segs, ""), (gen_statement(rng), "")]
        pos, elems = legal_positions(units)
        breaks = {}
        if i % 3:
            for p_ in pos:
                if rng.chance(0.01):
                    breaks[p_] = 1
        cases.append(inscope_case(rng, units, breaks, "typed" if i % 2 == 0 else "mixed", "one", "long-statement"))
    return cases


SAFE_ESC = [[27, 91, 51, 126], [27, 91, 53, 126], [27, 79, 80], [27, 91, 49, 53, 126], [27, 120],
            [27, 27, 91, 51, 126], [27, 91, 50, 48, 50, 126], [27, 91, 90]]
TYPED_CTRL = [0, 7, 9, 10, 15, 17, 18, 19, 20, 22, 24, 25, 26, 28, 29, 30, 31]
BAD_UTF8 = [[0x80], [0xC0, 0xAF], [0xC2], [0xE2, 0x82], [0xED, 0xA0, 0x80], [0xF5, 0x80], [0xFF],
            [0xF0, 0x9F, 0x98], [0xEF, 0xBF, 0xBD], [0xE0, 0x80, 0x80], [0xF4, 0x90, 0x80, 0x80]]


def gen_raw(rng, tier):
    """inputs outside the theorem's hypotheses: model vs Go only"""
    cases = []
    n = 350 if tier == "quick" else 4000
    for i in range(n):
        units = gen_script(rng, rng.randrange(1, 4))
        text = []
        for segs, sep in units:
            for t, lit in segs:
                text += [ord(c) for c in t]
            text += [ord(c) for c in sep]
        bs = []
        for cp in text:
            bs.append(utf8(cp))
        nm = rng.randrange(1, 5)
        tags = set()
        paste = False
        for _ in range(nm):
            at = rng.randrange(0, len(bs) + 1)
            r = rng.random()
            if r < 0.14:
                bs.insert(at, [92] + ([rng.choice([39, 34, 92, 59, 110])] if rng.chance(0.7) else []))
                tags.add("backslash")
            elif r < 0.26:
                bs.insert(at, [rng.choice([39, 34])])
                tags.add("stray-quote")
            elif r < 0.40:
                bs.insert(at, [13] * rng.choice([1, 1, 2]))
                tags.add("enter-anywhere")
            elif r < 0.50:
                bs.insert(at, [rng.choice(TYPED_CTRL)])
                tags.add("control-byte")
            elif r < 0.60:
                bs.insert(at, rng.choice(BAD_UTF8))
                tags.add("bad-utf8")
            elif r < 0.68:
                bs.insert(at, rng.choice(SAFE_ESC))
                tags.add("unknown-escape")
            elif r < 0.74:
                bs.insert(at, [rng.choice([3, 4])])
                tags.add("ctrl-c-d")
            elif r < 0.80:
                bs.insert(at, rng.choice([[13, 10], [10], [10, 13]]))
                tags.add("lf")
            else:
                bs.insert(at, rng.choice([PS, PE, PS, PE, PS + PS, PE + PE]))
                tags.add("paste-marker")
        flat = [b for x in bs for b in x]
        mode = rng.random()
        if mode < 0.35:
            # the whole thing inside a paste: every byte (incl. editing control bytes) is literal
            extra = [rng.choice([1, 2, 5, 6, 8, 11, 12, 14, 16, 21, 23, 127, 9, 10])] \
                if rng.chance(0.5) and "paste-marker" not in tags else []
            k = rng.randrange(0, len(flat) + 1)
            flat = PS + flat[:k] + extra + flat[k:] + (PE if rng.chance(0.7) else [])
            tags.add("in-paste")
        if rng.chance(0.8):
            flat = flat + [13]
        if rng.chance(0.3):
            flat = flat + [13]
        cases.append({"kind": "raw", "tags": sorted(tags), "script": None,
                      "chunks": chunk_bytes(rng, flat, rng.choice(["one", "random", "random", "bytes"]))})
    # literals with backslash escapes (outside the theorem's hypotheses: model vs Go): an escaped quote does not
    # close the literal, an escaped backslash does not escape the quote after it, a semicolon inside stays inside
    ESC_LITS = ["'C:\\\\'", "'it\\'s'", "'a\\\\\\'b;c'", "'\\\\'", "\"q\\\\\"", "\"say \\\"hi\\\";\"", "'x\\\\\\\\'", "'\\;'", "'a\\\\;b\\\\'"]
    for i in range(24 if tier == "quick" else 200):
        parts = []
        for _ in range(rng.randrange(1, 4)):
            lit = rng.choice(ESC_LITS)
            parts.append(rng.choice(["insert into t values (1, %s);", "select %s from t;", "update t set a = %s where b = 'a;b';"]) % lit)
            parts.append(rng.choice(["", " ", "\r", "\r"]))
        parts.append("select 'a;b';\r")
        flat = [b for ch in "".join(parts) for b in utf8(ord(ch))]
        if i % 4 == 3:
            flat = PS + flat + PE + [13]
        cases.append({"kind": "raw", "tags": ["escaped-literal"], "script": None,
                      "chunks": chunk_bytes(rng, flat, rng.choice(["one", "random"]))})
    # lines around maxLineLength
    nl = 6 if tier == "quick" else 40
    for i in range(nl):
        base = rng.choice([4090, 4095, 4096, 4097, 4100, 4200])
        body = [rng.choice([97, 98, 32, 49]) for _ in range(base)]
        variant = i % 6
        if variant == 0:       # typed beyond the former 4096 limit
            flat = body + [59, 13] + [59, 13]
        elif variant == 1:     # pasted: no limit
            flat = PS + body + [59] + PE + [13]
        elif variant == 2:     # Enter appends its space
            flat = body[:4094] + [13, 13, 13] + [120, 59, 13]
        elif variant == 3:     # a literal longer than the former limit
            flat = [39] + body + [39, 59, 13, 39, 59, 13]
        elif variant == 4:     # paste beyond the former limit, then typed keys
            flat = PS + body[:4097] + PE + [120, 59, 13]
        else:                  # multi-byte runes count once
            flat = [b for _ in range(2048) for b in (0xC3, 0xA9)] + body[:2050] + [59, 13, 59, 13]
        cases.append({"kind": "raw", "tags": ["long-line"], "script": None,
                      "chunks": chunk_bytes(rng, flat, rng.choice(["one", "random"]))})
    return cases


# ---------------------------------------------------------------------------------------------
# evaluation
# ---------------------------------------------------------------------------------------------

def cqN(xs):
    return "[" + ";".join("%d" % x for x in xs) + "]"


def obs_coq(o):
    outs = []
    for l in o["lines"]:
        outs.append("Line %s %s" % (cq_list(cqN(s) for s in l["s"]), cq_bool(l["p"])))
    outs.append("Eof" if o["end"] == "eof" else "Unmodelled")
    return cq_list(outs)


def case_coq(c, o):
    if c.get("script"):
        us = cq_list("(%s, %s)" % (cqN(m), cqN(s)) for m, s in c["script"]["units"])
        pcs = cq_list("(%s, %s)" % (cq_bool(p), cqN(it)) for p, it in c["script"]["pcs"])
        sc = "(Some (%s, %s))" % (us, pcs)
    else:
        sc = "None"
    return "mkCase %s %s %s (%s)" % (cq_list(cqN(ch) for ch in c["chunks"]), sc, cqN(o["consts"]), obs_coq(o))


def evaluate(ctx, cases, name):
    ok, obs, lg = vlib.run_driver_parallel(ctx.bins["console"], "console", [{"chunks": c["chunks"]} for c in cases])
    if not ok or len(obs) != len(cases):
        raise RuntimeError("console driver failed: " + lg[-2000:])
    terms = [case_coq(c, o) for c, o in zip(cases, obs)]
    defs = {"SM": "spec_accepts"}
    if ctx.model_ok:
        defs["MM"] = "model_agrees"
        defs["HY"] = "hyps_hold"
    okc, res, lg = vlib.run_coq_cases(name, HEADER, terms, "ccase", defs, shard=250)
    if not okc:
        raise RuntimeError("coq evaluation failed: " + lg[-3000:])
    if res.get("HY"):
        raise RuntimeError("generator bug: in-scope cases violate the theorem's hypotheses: %s"
                           % [cases[i] for i in res["HY"][:2]])
    return obs, res.get("MM", []), res["SM"]


def shrink(ctx, case, which):
    def fails(c):
        try:
            _, mm, sm = evaluate(ctx, [c], "c20_shrink")
        except RuntimeError:
            return False
        return bool(mm if which == "MM" else sm)
    budget = 70
    if case.get("script"):
        units = case["script"]["units"]
        # drop whole statements, then single items, always typed in one chunk
        def build(us):
            items = [k for m, s in us for k in m + s]
            pasted = any(p for p, _ in case["script"]["pcs"])
            pcs = [[pasted, items]]
            return {"kind": "shrunk", "chunks": [encode_keys(deliver(pcs) + [ENTER])],
                    "script": {"units": us, "pcs": pcs}}
        cur = build(units)
        if not fails(cur):
            return case
        changed = True
        while changed and budget > 0:
            changed = False
            us = cur["script"]["units"]
            for i in range(len(us)):
                if len(us) > 1:
                    cand = build(us[:i] + us[i + 1:])
                    budget -= 1
                    if fails(cand):
                        cur, changed = cand, True
                        break
        # then cut runs of keys out of each statement (candidates that leave the theorem's
        # hypotheses are rejected by the HY check inside evaluate)
        for ui in range(len(cur["script"]["units"])):
            m = list(cur["script"]["units"][ui][0])
            chunk = max(1, len(m) // 2)
            while chunk >= 1 and budget > 0:
                i = 0
                while i < len(m) and budget > 0:
                    cm = m[:i] + m[i + chunk:]
                    us = [list(u) for u in cur["script"]["units"]]
                    us[ui] = [cm, us[ui][1]]
                    cand = build(us)
                    budget -= 1
                    if cm and fails(cand):
                        m, cur = cm, cand
                    else:
                        i += chunk
                if chunk == 1:
                    break
                chunk //= 2
        return cur
    flat = [b for ch in case["chunks"] for b in ch]
    cur = dict(case, chunks=[flat])
    if not fails(cur):
        return case
    chunk = max(1, len(flat) // 2)
    while chunk >= 1 and budget > 0:
        i = 0
        while i < len(flat) and budget > 0:
            cand = flat[:i] + flat[i + chunk:]
            budget -= 1
            if cand and fails(dict(case, chunks=[cand])):
                flat = cand
            else:
                i += chunk
        if chunk == 1:
            break
        chunk //= 2
    return dict(case, chunks=[flat])


def text_of_case(c):
    try:
        return bytes(b for ch in c["chunks"] for b in ch).decode("utf-8", "replace")
    except Exception:
        return ""


def nontrivial_tags(c):
    tags = set()
    if not c.get("script"):
        return tags
    us = c["script"]["units"]
    for m, s in us:
        q = 0
        for k in m:
            if q:
                if k == 59:
                    tags.add("semicolon-in-literal")
                if k in (39, 34) and k != q:
                    tags.add("other-quote-in-literal")
                if k == q:
                    q = 0
            elif k in (39, 34):
                q = k
            elif k == ENTER:
                tags.add("break-inside-statement")
    items = [k for m, s in us for k in m + s]
    line, per_line = 0, []
    for m, s in us:
        line += 1
        if ENTER in s:
            per_line.append(line)
            line = 0
    if any(n >= 2 for n in per_line) or (len(us) >= 2 and not any(ENTER in s for m, s in us[:-1])):
        tags.add("several-statements-per-line")
    if any(p for p, _ in c["script"]["pcs"]):
        tags.add("pasted")
    return tags


def run(ctx):
    if ctx.replay and "case" in ctx.replay:
        cases = [ctx.replay["case"]]
    else:
        cases = gen_inscope(ctx.rng, ctx.tier) + gen_raw(ctx.rng, ctx.tier)
    obs, mm, sm = evaluate(ctx, cases, "c20")
    kinds, tagc, rawtags = {}, {}, {}
    seen = set()
    nontrivial = 0
    nstmts = 0
    for c, o in zip(cases, obs):
        kinds[c.get("kind", "replay")] = kinds.get(c.get("kind", "replay"), 0) + 1
        for t in c.get("tags", []):
            rawtags[t] = rawtags.get(t, 0) + 1
        nstmts += sum(len(l["s"]) for l in o["lines"])
        tags = nontrivial_tags(c)
        for t in tags:
            tagc[t] = tagc.get(t, 0) + 1
        if tags & {"semicolon-in-literal", "break-inside-statement", "several-statements-per-line"}:
            key = repr((c["script"]["units"], c["script"]["pcs"]))
            if key not in seen:
                seen.add(key)
                nontrivial += 1
    ctx.report.coverage.update({
        "evaluations": len(cases),
        "distinct_nontrivial": nontrivial,
        "rule": "in-scope case (hypotheses of C20_submitted checked in Coq) whose script has a ';' inside a "
                "literal, a line break inside a statement, or several statements on one line; distinct by "
                "(marked statements, delivery chunks)",
        "traces_validated_against_impl": len(cases),
        "in_scope_cases": sum(1 for c in cases if c.get("script")),
        "out_of_scope_cases_model_vs_go_only": sum(1 for c in cases if not c.get("script")),
        "statements_returned_by_go": nstmts,
        "case_kinds": kinds,
        "in_scope_cases_with": tagc,
        "out_of_scope_mutations": rawtags,
        "exhaustive": False,
        "samples": [{"input": text_of_case(c)[:120], "returned": [["".join(map(chr, s)) for s in l["s"]] for l in o["lines"]][:3]}
                    for c, o in list(zip(cases, obs))[:: max(1, len(cases) // 3)][:3]],
    })
    out = {"spec_violations": [], "model_mismatches": [], "correspondence_name":
           "session_bytes / session_keys (Model/Console.v) vs Terminal.ReadLine until io.EOF"}
    for i in sm[:2]:
        small = shrink(ctx, cases[i], "SM")
        o2, _, _ = evaluate(ctx, [small], "c20_final")
        exp = None
        out["spec_violations"].append({
            "case": small, "input_text": text_of_case(small),
            "observed": [["".join(map(chr, s)) for s in l["s"]] for l in o2[0]["lines"]],
            "expected": "each typed statement once, in order: break -> one space, then TrimSpace "
                        "(Spec.ConsoleSpec.spec_accepts)",
            "what": "ReadLine did not return exactly the typed statements",
            "replay_cmd": "python3 tools/check.py C20 --replay <this file>"})
    for i in mm[:2]:
        small = shrink(ctx, cases[i], "MM")
        o2, _, _ = evaluate(ctx, [small], "c20_final")
        out["model_mismatches"].append({"case": small, "input_text": text_of_case(small), "observed": o2[0]["lines"]})
    return out
