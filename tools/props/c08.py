"""C08 - stored values read back exactly; invalid values are refused.
Schemas over the four types in random order; rows with boundary values (INT +-2^31, BIGINT +-2^63,
empty / NUL / 0xFF strings, NULLs, rows of exactly 400 and 401 encoded bytes), supplied as direct
statement values (engine.EvaluateInsert / EvaluateUpdate) and, where the lexical grammar can express
them, as SQL text; read back at once, after flush with a 6-page cache (evict + reload), and after
a restart. MM: model; SM: specification in strict mode (accepted values stored exactly; a refusal
only where the property demands one). Tuple.Encode bytes are compared byte for byte."""
import vlib
from props import hist

PROP_FILES = ["Properties/C08.v"]
HARNESS = ["engine", "storage"]
ASSUMPTIONS = [
    "negative integers and strings containing a single quote, backslash or line break cannot be written as SQL "
    "literals: they are supplied as direct statement values only (a limit of the input language, not a violation)",
    "Go int64 is the value domain of integers: BIGINT values outside 64 bits cannot be constructed",
]

I32 = [0, 1, -1, 2147483647, -2147483648, 2147483646, -2147483647, 65536, -65536]
I32_BAD = [2147483648, -2147483649, 4294967296, 9223372036854775807, -9223372036854775808]
I64 = [0, 1, -1, 2147483648, -2147483649, 9223372036854775807, -9223372036854775808, 4294967296, 10 ** 15]
STRS = ["", "a", "\x00", "\xff", "\x00\xff\x00", "it's", 'say "hi"', "a;b", "semi;'quote", "tab\tnl\nend", "\\N", "\\",
        "NULL", "ünï", " ", "  x  ",
        # strings spelled like reserved words and symbols: they are values, not syntax
        "true", "false", "null", "or", "and", "select", "values", ",", "*", "=", "(", ")", "on", "TRUE"]


def good(rng, t):
    if t == "int":
        return rng.choice(I32 + [rng.randrange(-2 ** 31, 2 ** 31)])
    if t == "bigint":
        return rng.choice(I64 + [rng.randrange(-2 ** 63, 2 ** 63)])
    if t == "boolean":
        return rng.choice([True, False])
    s = rng.choice(STRS + ["".join(chr(rng.randrange(0, 256)) for _ in range(rng.randint(0, 30)))])
    return s


def bad(rng, t):
    """a value the property says must be refused for a column of type t"""
    if t == "int":
        return rng.choice(I32_BAD + ["5", True])
    if t == "bigint":
        return rng.choice(["7", False])
    if t == "boolean":
        return rng.choice([0, 1, "true"])
    return rng.choice([0, True, -3])


def pad_to(cols, row, target):
    """change one VARCHAR value so that the encoded row has exactly `target` bytes (None if impossible)"""
    idx = [i for i, c in enumerate(cols) if c[1] == "varchar"]
    if not idx:
        return None
    i = idx[0]
    row = list(row)
    row[i] = ""
    base = hist.row_size(cols, cols, row)
    if target < base:
        return None
    row[i] = "".join("abcdefghijklmnopqrstuvwxyz"[j % 26] for j in range(target - base))
    return row


def expressible(v):
    if v is None:
        return False
    if isinstance(v, bool):
        return True
    if isinstance(v, int):
        return v >= 0
    return all(32 <= ord(c) < 127 and c not in "'\\" for c in v)


def build_case(rng, tier):
    n = rng.randint(2, 8)
    cols = [("c%d" % i, rng.choice(hist.TYPES), 400) for i in range(n)]
    cols = [(c, t, 400 if t == "varchar" else 0) for c, t, _ in cols]
    # one column numbers the rows so that every UPDATE addresses exactly one row (a failing
    # multi-row UPDATE keeping earlier rows is C14's recorded finding, not C08's subject)
    kpos = rng.randrange(n)
    cols[kpos] = ("k", "int", 0)
    serial = [0]
    name = "t"
    evs = [("stmt", {"k": "create", "table": name, "cols": cols})]
    expect = []   # (kind, should_be_accepted)
    rows = []
    for _ in range(rng.randint(6, 14)):
        r = rng.random()
        row = [good(rng, t) if rng.random() < 0.85 else None for _, t, _ in cols]
        serial[0] += 1
        row[kpos] = serial[0]
        kind = "valid"
        if r < 0.2:
            i = rng.choice([j for j in range(n) if j != kpos])
            row[i] = bad(rng, cols[i][1])
            kind = "invalid_value"
        elif r < 0.3:
            p = pad_to(cols, row, 400)
            if p:
                row, kind = p, "exactly_400"
        elif r < 0.4:
            p = pad_to(cols, row, rng.choice([401, 402, 450]))
            if p:
                row, kind = p, "over_400"
        if kind == "valid" and hist.row_size(cols, cols, row) > 400:
            kind = "over_400"
        st = {"k": "insert", "table": name, "cols": [], "rows": [row]}
        if all(expressible(v) for v in row) and rng.random() < 0.5:
            evs.append(("stmt", st))
            kind += "/text"
        else:
            evs.append(("dstmt", st))
        expect.append(kind)
        if rng.random() < 0.3:
            evs.append(("flush",))
    evs.append(("tables", [name]))
    # column lists naming an unknown column or a column twice: the value could not be stored, so the
    # statement must be refused (until /repo 7956a4c such values were dropped silently)
    for bl, vals in rng.sample([(["zz"], [5]), (["k", "k"], [900, 901]), (["k", "zz"], [902, "q"]),
                                (["zz", "k"], [True, 903])], 2):
        evs.append((rng.choice(["stmt", "dstmt"]), {"k": "insert", "table": name, "cols": bl, "rows": [vals]}))
    evs.append(("dstmt", {"k": "update", "table": name, "sets": [(rng.choice(["zz", "K", "c99"]), 7)],
                          "where": [[(("col", "", "k"), "=", rng.randint(1, max(1, serial[0])))]]}))
    evs.append(("dstmt", {"k": "update", "table": name, "sets": [("k", 950), ("k", 951)],
                          "where": [[(("col", "", "k"), "=", rng.randint(1, max(1, serial[0])))]]}))
    evs.append(("tables", [name]))
    # updates with boundary values
    for _ in range(rng.randint(1, 4)):
        i = rng.choice([j for j in range(n) if j != kpos])
        c, t, _ = cols[i]
        r = rng.random()
        v = good(rng, t) if r < 0.6 else (bad(rng, t) if r < 0.8 else None)
        if v is None and r >= 0.8 and t == "varchar":
            v = "z" * rng.choice([396, 400, 500])
        st = {"k": "update", "table": name, "sets": [(c, v)],
              "where": [[(("col", "", "k"), "=", rng.randint(1, max(1, serial[0])))]]}
        if v is None:
            continue   # SET col = NULL: a nil update source is the same as not setting... keep out
        evs.append(("dstmt", st))
        evs.append(("tables", [name]))
    evs += [("flush",), ("tables", [name]), ("crash",), ("tables", [name])]
    # after the restart the pages are re-read from disk: grow and shrink rows in the middle of a page,
    # then read everything back again, also after another flush + restart
    vcs = [c for c, t, _ in cols if t == "varchar"]
    for _ in range(rng.randint(2, 4)):
        if not vcs or serial[0] < 2:
            break
        c = rng.choice(vcs)
        v = rng.choice(["", "q", "grown-" + "g" * rng.randint(10, 60), good(rng, "varchar")])
        st = {"k": "update", "table": name, "sets": [(c, v)],
              "where": [[(("col", "", "k"), "=", rng.randint(1, max(1, serial[0] - 1)))]]}
        evs.append(("dstmt", st))
        evs.append(("tables", [name]))
    evs += [("flush",), ("crash",), ("tables", [name])]
    return evs, expect, cols


def tuple_cases(rng, n):
    """Tuple.Encode inputs for the byte-exact comparison"""
    out = []
    for _ in range(n):
        k = rng.randint(1, 8)
        sch = [("c%d" % i, rng.choice(hist.TYPES)) for i in range(k)]
        vals = []
        for _, t in sch:
            r = rng.random()
            vals.append(None if r < 0.15 else (bad(rng, t) if r < 0.25 else good(rng, t)))
        out.append((sch, vals))
    return out


TYPE_COQ = {"int": "TInt", "bigint": "TBigInt", "varchar": "TVarchar", "boolean": "TBoolean"}


def run(ctx):
    ncase = 30 if ctx.tier == "quick" else 300
    built = [build_case(ctx.rng, ctx.tier) for _ in range(ncase)]
    evs = [b[0] for b in built]
    out = {"spec_violations": [], "model_mismatches": [],
           "correspondence_name": "insert/update of boundary values, read back at once / after flush+reload / after restart"}
    nontrivial = 0
    kinds = {}
    for cache in ([6, 10000] if ctx.tier == "quick" else [6, 8, 10000]):
        outs = hist.run_histories(ctx, evs, cache=cache)
        terms = [hist.cq_case(e, o) for e, o in zip(evs, outs)]
        defs = {"SM": "spec_accepts_strict"}
        if ctx.model_ok:
            defs["MM"] = "model_agrees"
        okc, res, lg = vlib.run_coq_cases("c08_%d" % cache, hist.HEADER, terms, "hcase", defs, shard=8)
        if not okc:
            raise RuntimeError("coq evaluation failed: " + lg[-3000:])
        for i in res["SM"][:2]:
            out["spec_violations"].append({"events": [list(x) for x in evs[i]], "cache": cache, "columns": built[i][2],
                                           "observed": outs[i],
                                           "what": "a value was stored altered, an accepted value was lost, an invalid value was "
                                                   "accepted, or a valid value was refused"})
        for i in res.get("MM", [])[:2]:
            out["model_mismatches"].append({"events": [list(x) for x in evs[i]], "cache": cache})
        if cache == 6:
            for (e, exp, cols), o in zip(built, outs):
                stm = [x for x, y in zip(o, e) if y[0] in ("stmt", "dstmt")][1:1 + len(exp)]
                for k, r in zip(exp, stm):
                    kinds[k] = kinds.get(k, 0) + 1
                    acc = r["res"] == "ok"
                    kinds[k + ("=accepted" if acc else "=refused")] = kinds.get(k + ("=accepted" if acc else "=refused"), 0) + 1
                    if k.split("/")[0] in ("invalid_value", "over_400", "exactly_400"):
                        nontrivial += 1
    # byte-exact Tuple.Encode
    tcs = tuple_cases(ctx.rng, 150 if ctx.tier == "quick" else 1500)
    inputs = [{"schema": [{"name": n, "type": t} for n, t in sch], "vals": [hist.go_typed(v) for v in vals]} for sch, vals in tcs]
    ok, touts, lg = vlib.run_driver(ctx.bins["storage"], "tuple", inputs)
    if not ok or len(touts) != len(tcs):
        raise RuntimeError("tuple driver failed: " + lg[-2000:])
    terms = []
    for (sch, vals), o in zip(tcs, touts):
        schq = hist.cq_list("mkField %s %s 0" % (TYPE_COQ[t], hist.cq_str(n)) for n, t in sch)
        tup = hist.cq_list("(%s, %s)" % (hist.cq_str(n), hist.cq_value(v)) for (n, _), v in zip(sch, vals) if v is not None)
        if o["err"] == "ok":
            obs = "Ok (B [%s])" % ";".join(map(str, o["bytes"]))
        else:
            obs = "Err %s" % hist.ERRMAP.get(o["err"], "EOther")
        dec = "None" if o.get("decoded") is None else "(Some %s)" % hist.cq_list(hist.cq_value(hist.py_val(v)) for v in o["decoded"])
        terms.append("(%s, %s, %s, %s)" % (schq, tup, obs, dec))
    # tuple_case, tuple_model_agrees, tuple_spec_strict: coq/Spec/TupleObs.v (C08_tuple_agreement_implies_strict_acceptance)
    header = hist.HEADER + "\nFrom Mkdb Require Import Spec.TupleObs.\n"
    okc, res, lg = vlib.run_coq_cases("c08_tuple", header, terms, "tuple_case",
                                      {"TM": "tuple_model_agrees", "TS": "tuple_spec_strict"}, shard=200)
    if not okc:
        raise RuntimeError("coq evaluation failed: " + lg[-3000:])
    for i in res["TS"][:2]:
        out["spec_violations"].append({"tuple_case": inputs[i], "observed": touts[i], "what": "Tuple.Encode / Decode: a valid row refused or stored with another size, an invalid one accepted, or Decode(Encode(row)) differs from row (Spec/TupleObs.v tuple_spec_strict)"})
    for i in res["TM"][:2]:
        out["model_mismatches"].append({"tuple_case": inputs[i], "observed": touts[i]})
    ctx.report.coverage.update({
        "evaluations": len(evs) * 2 + len(tcs),
        "distinct_nontrivial": nontrivial,
        "rule": "per case a random schema (1-8 columns) and 6-14 single-row inserts plus updates drawn from boundary pools; "
                "non-trivial = a statement carrying an invalid value, or a row of exactly 400 / more than 400 encoded bytes "
                "(counted per statement at cache capacity 6)",
        "traces_validated_against_impl": len(evs) * 2,
        "statement_kinds": kinds,
        "tuple_encodings_compared_byte_exact": len(tcs),
        "samples": [{"columns": b[2], "statements": [hist.sql_stmt(x[1])[:80] if x[0] == "stmt" else
                                                      (x[0] if x[0] != "dstmt" else "direct " + str(x[1].get("rows") or x[1].get("sets"))[:80])
                                                      for x in b[0]][:6]} for b in built[:3]],
    })
    return out
