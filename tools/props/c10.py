"""C10 - parsing is faithful: the text of a statement yields that statement.

Trees are generated over the whole grammar (exhaustively for small boolean expressions), written as SQL
TEXT with random keyword case, white space / line breaks / tabs, quoted identifiers and every optional
spelling (INNER, AS, ASC, () column list, LIMIT/OFFSET order, GROUP BY commas or blanks, trailing ;),
and parsed by the real scanner + parser (driven as engine.parseSQL does). Inside Coq:
  SM    : Go's tree == the generated tree (stmt_eqb);
  MM    : the model's parse of the same raw tokens == Go's tree;
  SCOPE : the case is an instance of theorem C10_roundtrip: wf_stmt holds and the text lexes to exactly
          Spec.ParseSpec.render of the tree under the recorded choices."""
import copy
import json
import time

import vlib
from props import sqlfront as sf
from props.sqlfront import cq_list

PROP_FILES = ["Properties/C10.v"]
HARNESS = ["sql"]
ASSUMPTIONS = [
    "the forked text/scanner is a raw-token oracle (not modelled); the theorem is stated on token lists, the "
    "correspondence renders to text and goes through the real scanner",
    "strings in the generated statements avoid what the lexical grammar cannot express (a quote of the same kind, "
    "backslash, newline); negative numbers have no literal",
]


def case_term(case, obs):
    return "(%s, %s, %s, %s)" % (sf.stmt_term(case["ast"]), case["opts_term"],
                                 cq_list(sf.raw_term(r) for r in obs["raw"]), sf.gout_term(obs["out"]))


def make_case(rng, ast, kind, canonical=False, force=None):
    text, lex, r = sf.render_stmt(rng, ast, canonical, force)
    if r.unrenderable:
        return None
    if not canonical and rng.random() < 0.12:
        # statements longer than the scanner's 1024-byte read block, with a token straddling a block boundary
        text = sf.pad_to_buffer_boundary(rng, text)
    return {"ast": ast, "text": text, "opts_term": r.opts_term(), "kind": kind, "nlex": len(lex), "flags": r.flags()}


def bool_contexts(rng, e):
    """a boolean expression in the three places the grammar allows one"""
    base = {"k": "select", "list": [{"k": "dc", "p": {"k": "star"}, "as": ""}],
            "from": [{"k": "tname", "name": "t", "corr": None}], "where": {"k": "where", "c": e}, "group": None,
            "sort": None, "la": False, "oa": False, "limit": "0", "offset": "0"}
    on = copy.deepcopy(base)
    on["where"] = None
    on["from"] = [{"k": "join", "l": {"k": "tname", "name": "t", "corr": None}, "jt": rng.choice([1, 2, 3]),
                   "r": {"k": "tname", "name": "u", "corr": None}, "on": e}]
    item = copy.deepcopy(base)
    item["where"] = None
    item["list"] = [{"k": "dc", "p": e, "as": rng.choice(["", "x"])}]
    upd = {"k": "update", "table": "t", "sets": [{"k": "set", "col": "a", "src": sf.J_int(1)}],
           "where": {"k": "where", "c": e}}
    dele = {"k": "delete", "table": "t", "where": {"k": "where", "c": e}}
    return [base, on, item, upd, dele]


def generate(rng, tier):
    cases = []
    max_leaves = 3 if tier == "quick" else 4
    for shape in sf.all_bool_shapes(max_leaves):
        e = sf.gen_or_expr(rng, shape)
        if e["k"] in ("int64", "str", "bool", "col") and False:
            continue
        for ast in bool_contexts(rng, e):
            # a bare value as a whole select item / condition is fine; as a select item it may be a column
            c = make_case(rng, ast, "bool-exhaustive")
            if c:
                c["shape"] = shape
                cases.append(c)
    nast, nrend = (2000, 3) if tier == "quick" else (12000, 3)
    for _ in range(nast):
        ast = sf.gen_stmt(rng)
        for k in range(nrend):
            c = make_case(rng, ast, "random", canonical=(k == 0 and rng.random() < 0.2))
            if c:
                cases.append(c)
    return cases


def run_go(ctx, cases):
    ok, obs, lg = vlib.run_driver_parallel(ctx.bins["sql"], "parse", [{"text": c["text"]} for c in cases], nshards=12)
    if not ok or len(obs) != len(cases):
        raise RuntimeError("sql parse driver failed: " + lg[-2000:])
    return obs


def evaluate(ctx, cases, name, obs=None):
    if obs is None:
        obs = run_go(ctx, cases)
    idx = [i for i, o in enumerate(obs) if o["toks"] is not None]
    scan_fail = [i for i, o in enumerate(obs) if o["toks"] is None]
    thunks = [(lambda c=cases[i], o=obs[i]: case_term(c, o)) for i in idx]
    sizes = [150 + 60 * len(obs[i]["raw"]) for i in idx]
    defs = {"SM": "c10_spec"}
    if ctx.model_ok:
        defs["MM"] = "c10_model"
        defs["SCOPE"] = "c10_in_scope"
    header = sf.OBS_HEADER + "From Mkdb Require Import Spec.ParseSpec.\n"
    okc, res, lg = sf.eval_cases(name, thunks, sizes, "c10_case", defs, header=header)
    if not okc:
        raise RuntimeError("coq evaluation failed: " + lg[-3000:])
    g = lambda k: [idx[j] for j in res.get(k, [])]
    return obs, g("MM"), sorted(set(g("SM") + scan_fail)), g("SCOPE")


# ---- shrinking: smaller trees that still fail ----------------------------------------------------

def sub_exprs(e):
    out = []
    if e["k"] in ("and", "or"):
        out += [e["l"], e["r"]]
    return out


def shrink_candidates(ast):
    out = []

    def put(f):
        a = copy.deepcopy(ast)
        try:
            if f(a) is not False:
                out.append(a)
        except (KeyError, IndexError, TypeError):
            pass

    k = ast["k"]
    if k == "select":
        for fld in ("where", "group", "sort"):
            if ast.get(fld):
                put(lambda a, fld=fld: a.__setitem__(fld, None))
        if ast["la"]:
            put(lambda a: (a.__setitem__("la", False), a.__setitem__("limit", "0")))
        if ast["oa"]:
            put(lambda a: (a.__setitem__("oa", False), a.__setitem__("offset", "0")))
        for i in range(len(ast["list"])):
            if len(ast["list"]) > 1:
                put(lambda a, i=i: a["list"].pop(i))
            if ast["list"][i]["as"]:
                put(lambda a, i=i: a["list"][i].__setitem__("as", ""))
        for fld in ("group", "sort"):
            for i in range(len(ast.get(fld) or [])):
                if len(ast[fld]) > 1:
                    put(lambda a, i=i, fld=fld: a[fld].pop(i))
        if ast["from"] and ast["from"][0]["k"] == "join":
            put(lambda a: a["from"].__setitem__(0, a["from"][0]["l"]))
        if ast["where"]:
            for se in sub_exprs(ast["where"]["c"]):
                put(lambda a, se=se: a["where"].__setitem__("c", copy.deepcopy(se)))
    elif k in ("update", "delete"):
        if ast.get("where"):
            put(lambda a: a.__setitem__("where", None))
            for se in sub_exprs(ast["where"]["c"]):
                put(lambda a, se=se: a["where"].__setitem__("c", copy.deepcopy(se)))
        for i in range(len(ast.get("sets") or [])):
            put(lambda a, i=i: a["sets"].pop(i))
    elif k == "insert":
        rows = ast["query"]["rows"] or []
        for i in range(len(rows)):
            put(lambda a, i=i: a["query"]["rows"].pop(i))
        if ast["cols"]:
            put(lambda a: a.__setitem__("cols", None))
    elif k == "createtable":
        for i in range(len(ast["els"] or [])):
            put(lambda a, i=i: a["els"].pop(i))
    return out


def shrink(ctx, case, which):
    cur = case
    for _round in range(8):
        cands = []
        for a in shrink_candidates(cur["ast"]):
            if a["k"] == "select" and sf.validate_group_by(a["list"], a["group"] or []) is not None:
                continue
            c = make_case(ctx.rng, a, "shrunk", canonical=True, force=case.get("flags"))
            if c:
                cands.append(c)
        if not cands:
            break
        try:
            _, mm, sm, sc = evaluate(ctx, cands, "c10_shrink")
        except RuntimeError:
            break
        bad = {"MM": mm, "SM": sm, "SCOPE": sc}[which]
        if not bad:
            break
        cur = min((cands[i] for i in bad), key=lambda c: len(c["text"]))
    return cur


def features(ast):
    """what makes a case non-trivial"""
    f = set()

    def ex(e, where):
        if isinstance(e, dict) and e.get("k") in ("and", "or"):
            f.add(e["k"])
            ex(e["l"], where)
            ex(e["r"], where)

    k = ast["k"]
    if k == "select":
        if len(ast["list"]) > 1:
            f.add("select-list>1")
        for d in ast["list"]:
            ex(d["p"], "item")
            if d["as"]:
                f.add("alias")
        t = ast["from"][0] if ast["from"] else None
        while t and t["k"] == "join":
            f.add("join")
            ex(t["on"], "on")
            t = t["l"]
        if ast["where"]:
            ex(ast["where"]["c"], "where")
        if len(ast.get("group") or []) > 1:
            f.add("group-by>1")
        if len(ast.get("sort") or []) > 1:
            f.add("order-by>1")
        if ast["la"] and ast["oa"]:
            f.add("limit+offset")
    elif k == "insert":
        if len(ast["query"]["rows"] or []) > 1:
            f.add("rows>1")
        if any(len(r["vals"] or []) > 1 for r in (ast["query"]["rows"] or [])):
            f.add("values>1")
        if len(ast["cols"] or []) > 1:
            f.add("columns>1")
    elif k == "update":
        if len(ast["sets"] or []) > 1:
            f.add("set>1")
        if ast["where"]:
            ex(ast["where"]["c"], "where")
    elif k == "delete":
        if ast["where"]:
            ex(ast["where"]["c"], "where")
    elif k == "createtable":
        if len(ast["els"] or []) > 1:
            f.add("coldefs>1")
    return f


def run(ctx):
    import sys
    import threading
    sys.setrecursionlimit(max(sys.getrecursionlimit(), 200000))
    threading.stack_size(512 * 1024 * 1024)
    box = {}

    def body():
        threading.stack_size(192 * 1024 * 1024)     # for the worker threads started from here
        try:
            box["r"] = _run(ctx)
        except BaseException as e:
            box["e"] = e
    th = threading.Thread(target=body)
    th.start()
    th.join()
    threading.stack_size(0)
    if "e" in box:
        raise box["e"]
    return box["r"]


def _run(ctx):
    t0 = time.time()
    out = {"spec_violations": [], "model_mismatches": [], "known": [],
           "correspondence_name": "parse_pipeline (Model/Lexer.v + Model/Parser.v) vs the Go scanner + Parser.Parse on "
                                  "rendered statement texts; render (Spec/ParseSpec.v) vs the generator's text"}
    if ctx.replay and "case" in ctx.replay:
        cases = [ctx.replay["case"]]
    else:
        cases = generate(ctx.rng, ctx.tier)
    obs, mm, sm, scope = evaluate(ctx, cases, "c10")
    vlib.log("  [c10 %.1fs] %d cases evaluated" % (time.time() - t0, len(cases)))

    def pack(c, o):
        return {"case": {k: c.get(k) for k in ("ast", "text", "opts_term", "kind", "nlex")},
                "observed": {"toks": o["toks"], "out": o["out"]}}

    for i in sm[:2]:
        small = shrink(ctx, cases[i], "SM") if not ctx.replay else cases[i]
        o2 = run_go(ctx, [small])[0]
        d = pack(small, o2)
        d["what"] = "the parser did not return the statement that was written: expected tree = case.ast, text = case.text"
        d["replay_cmd"] = "python3 tools/check.py C10 --replay <this file>"
        out["spec_violations"].append(d)
    for i in mm[:2]:
        small = shrink(ctx, cases[i], "MM") if not ctx.replay else cases[i]
        o2 = run_go(ctx, [small])[0]
        out["model_mismatches"].append(pack(small, o2))
    if not sm:
        for i in scope[:2]:
            d = pack(cases[i], obs[i])
            d["what"] = ("generator and Spec.ParseSpec disagree: wf_stmt is false or the text does not lex to "
                         "render o s (the case is outside theorem C10_roundtrip)")
            out["model_mismatches"].append(d)

    kinds, feats, stmts = {}, {}, {}
    nontriv = set()
    for c in cases:
        kinds[c["kind"]] = kinds.get(c["kind"], 0) + 1
        stmts[c["ast"]["k"]] = stmts.get(c["ast"]["k"], 0) + 1
        f = features(c["ast"])
        for x in f:
            feats[x] = feats.get(x, 0) + 1
        if f:
            nontriv.add(c["text"])
    ctx.report.coverage.update({
        "evaluations": len(cases),
        "distinct_nontrivial": len(nontriv),
        "rule": "a case is non-trivial when its tree has a comma separated list with at least two elements, an AND or "
                "OR, a join, an alias, or LIMIT together with OFFSET; distinct by rendered text",
        "go_trees_not_expressible_in_Ast_v": len(sf.UNREP),
        "traces_validated_against_impl": len(cases),
        "case_kinds": kinds,
        "statement_kinds": stmts,
        "features": feats,
        "boolean_shapes_exhaustive_up_to_leaves": 3 if ctx.tier == "quick" else 4,
        "cases_inside_theorem_scope": len(cases) - len(scope),
        "avg_tokens_per_statement": round(sum(c.get("nlex", 0) for c in cases) / max(1, len(cases)), 1),
        "exhaustive": False,
        "samples": [{"text": c["text"][:100]} for c in cases[:: max(1, len(cases) // 4)][:4]],
    })
    return out
