"""C09 - the SQL front end never crashes or hangs.

Go side (harness/sql): the real scanner + token wrapper + Parser.Parse, driven as engine/session.go
parseSQL drives them, under recover() and a 2 s watchdog. Coq side: Model/Lexer.v (wrapper over the
raw-token oracle) + Model/Parser.v; theorem C09_total says the model never panics / runs out of fuel.
MM = model outcome class / tree / token list differs from Go; SM = Go panicked or hung."""
import itertools
import json
import os
import re
import time

import vlib
from props import sqlfront as sf
from props.sqlfront import cq_list, cq_str, cq_z

PROP_FILES = ["Properties/C09.v"]
HARNESS = ["sql"]
ASSUMPTIONS = [
    "the forked text/scanner (sql/go_scanner.go) is a raw-token oracle: its termination and panic-freedom are "
    "VALIDATED on the malformed byte stream of every run (partial), not proved; the model assumes nothing about "
    "the raw tokens it returns (raw_ok = true)",
    "strings.ToUpper / strings.ToLower / strconv.Atoi / strings.TrimPrefix / TrimSuffix behave as modelled "
    "(ToUpper: only U+0131 and U+017F map to ASCII letters; Atoi: optional sign, decimal digits, int64 range)",
    "Go stack growth: deep AND/OR recursion is bounded only by memory (validated with 5000-long chains)",
]

STMT_KW = ["CREATE", "SELECT", "INSERT", "UPDATE", "USE", "DELETE", "SHOW"]


# ----------------------------------------------------------------------------------------------
# vocabularies for token-level enumeration
# ----------------------------------------------------------------------------------------------

def full_vocab():
    codes, texts = sf.load_tables()
    hi = codes["reserved_word_end"]
    v = []
    for c in range(-1, hi + 2):
        if c == codes["IDENT"]:
            v += [[c, "a"], [c, "DataBases"]]
        elif c == codes["INT"]:
            v += [[c, "1"], [c, "x"], [c, "-1"]]
        elif c == codes["STR"]:
            v += [[c, "s"]]
        else:
            v.append([c, texts.get(c, "")])
    v.append([1000, ""])
    return v


def T(name, text=None):
    codes, texts = sf.load_tables()
    c = codes[name]
    return [c, texts.get(c, "") if text is None else text]


def reduced_vocabs(tier):
    """(label, prefix tokens, vocab, n)"""
    q = tier == "quick"
    expr = [T("IDENT", "a"), T("INT", "1"), T("EQ"), T("AND"), T("OR"), T("COMMA"), T("FROM"), T("WHERE"), T("DOT")]
    clauses = [T("ASTRSK"), T("FROM"), T("IDENT", "t"), T("GROUP"), T("BY"), T("ORDER"), T("LIMIT"), T("OFFSET"),
               T("INT", "1"), T("INT", "-1"), T("COMMA"), T("DESC"), T("COUNT"), T("LPAREN"), T("RPAREN")]
    joins = [T("ASTRSK"), T("FROM"), T("IDENT", "t"), T("JOIN"), T("LEFT"), T("INNER"), T("ON"), T("EQ"), T("AS")]
    ins = [T("INTO"), T("IDENT", "t"), T("LPAREN"), T("RPAREN"), T("VALUES"), T("INT", "1"), T("COMMA"), T("TRUE"),
           T("reserved_word_start")]
    upd = [T("IDENT", "t"), T("SET"), T("EQ"), T("INT", "1"), T("COMMA"), T("WHERE"), T("STR", "s"), T("DOT")]
    crt = [T("TABLE"), T("DATABASE"), T("IDENT", "t"), T("LPAREN"), T("RPAREN"), T("T_INT"), T("T_VARCHAR"),
           T("INT", "9"), T("INT", "1_0"), T("COMMA"), T("T_BOOL")]
    return [
        ("select-expr", [T("SELECT")], expr, 5 if q else 7),
        ("select-clauses", [T("SELECT")], clauses, 4 if q else 6),
        ("select-joins", [T("SELECT")], joins, 5 if q else 7),
        ("insert", [T("INSERT")], ins, 5 if q else 7),
        ("update", [T("UPDATE")], upd, 5 if q else 7),
        ("create", [T("CREATE")], crt, 4 if q else 6),
        ("delete", [T("DELETE")], [T("FROM"), T("IDENT", "t"), T("WHERE"), T("INT", "1"), T("EQ"), T("AND"), T("OR")],
         5 if q else 7),
    ]


# ----------------------------------------------------------------------------------------------
# text inputs: valid statements and their truncations, the malformed byte stream
# ----------------------------------------------------------------------------------------------

def lexeme_text(lex):
    return " ".join(t for t, _ in lex)


def gen_text_cases(rng, tier):
    cases = []   # (kind, text)
    nstmt = 260 if tier == "quick" else 1500
    nbyte = 36 if tier == "quick" else 300
    stmts = []
    for i in range(nstmt):
        ast = sf.gen_stmt(rng)
        text, lex, r = sf.render_stmt(rng, ast)
        if r.unrenderable:
            continue
        stmts.append((text, lex))
        cases.append(("valid", text))
        for k in range(len(lex)):
            cases.append(("trunc-token", lexeme_text(lex[:k])))
    for text, lex in stmts[:nbyte]:
        for k in range(len(text)):
            cases.append(("trunc-byte", text[:k]))
    # statements longer than the scanner's 1024-byte read block, a token straddling a block boundary
    for text, lex in stmts[:: max(1, len(stmts) // (60 if tier == "quick" else 400))]:
        cases.append(("block-boundary", sf.pad_to_buffer_boundary(rng, text)))
    # a long literal of multi-byte characters where another token is required (error messages quote the token)
    for n in ([14, 20, 30, 36, 41, 60] if tier == "quick" else list(range(8, 70, 3))):
        for ch in ("\u4e2d", "\u00e9", "\U0001F600"):
            lit = "'" + ch * n + "'"
            for pat in ("select * from %s", "select a from t where %s %s", "insert into %s values (1)", "update t set %s = 1",
                        "select a from t order by %s", "create table t (a %s)", "use %s", "select a from t limit %s"):
                cases.append(("long-multibyte-literal", (pat % ((lit,) * pat.count("%s"))).encode("utf-8").decode("latin-1")))

    mal = []
    mal += ["'", '"', "''", '""', '"""', "'''", "'abc", '"abc', "select 'abc", 'select "abc', "select 'a\\'",
            "select 'a\\", "select 'a\nb'", "select \"a\nb\" from t", "`abc", "select `x`", "select `x", "'\\", '"\\',
            "select '\\q'", "select '\\x4'", "select '\\u12'", "select '\\777'", "' '", "select ''' from t",
            "insert into t values ('", "insert into t values ('a', \"b\")", "select \"\" from \"\"",
            "select a \"\"", "select a as \"\"", "select a from t \"\"", "use \"\"", "create table \"\" (\"\" int)"]
    nums = ["99999999999999999999", "9223372036854775808", "9223372036854775807", "9223372036854775806",
            "18446744073709551616", "0x10", "0X1f", "0b101", "0o17", "017", "08", "1_000", "1__0", "0x", "0x_1", "0_",
            "1.5", ".5", "1e10", "1e", "1e+", "0x1p-2", "0x1p", "1.", "1..2", "1.e3", "00000000000000000000000001",
            "000000000000000000000000000000000000000000009223372036854775808", "0", "00", "1" + "0" * 100, "9" * 100000,
            "0" * 100000 + "7", "1i", "0x1.8p1", "1e400", "-1", "+1", "- 1", "-", "1-1", "1a", "1_", "0b2", "0o8", "0xg"]
    for n in nums:
        mal += ["select a from t limit " + n, "select " + n, "select a from t offset " + n + " limit " + n,
                "create table t (a varchar(" + n + "))", "insert into t values (" + n + ")",
                "update t set a = " + n + " where b != " + n]
    mal += ["\xff", "select \xff", "\xc3(", "sel\xc5\xbfect 1", "\xc5\xbfelect 1", "\xc5\xbfelect a from t l\xc4\xb1m\xc4\xb1t 3",
            "select 1 l\xc4\xb1mit 1", "\xe2\x84\xaa", "select \xe2\x84\xaa from t", "\xc4\xb0", "show DATABASES", "show databases",
            "show dataBases", "show database", "show databa\xc5\xbfes", "SHOW DATABASE\xc5\xbf", "show \xe2\x84\xaa",
            "show \"databases\"", "show 'databases'", "show databases x y", "\xef\xbb\xbfselect 1", "select \xef\xbb\xbf 1",
            "\xed\xa0\x80", "\xc0\xaf", "\xf4\x90\x80\x80", "select \xf0\x9f\x98\x80 from t", "select caf\xc3\xa9 from t",
            "select \xce\xb1 = \xce\xb2", "\xc5", "\xc5\xbf", "\xbf\xc5", "a\xc5", "\xc4\xb1n", "\xc4\xb1\xc5\xbf", "a\xcc\x81"]
    mal += ["\x00", "select\x001", "sel\x00ect", "select 'a\x00b'", "select \"a\x00b\"", "\x00\x00\x00", "select 1\x00",
            "//", "/*", "/* unterminated", "select /* c */ 1", "select 1 // c", "/", "select 1 / 2", "/*/", "/**/",
            "select 1 /* c", "select // c\n 1", "select 1 //", "--", "select 1 -- c", "#", "select a /", "select a /b"]
    for b in range(256):
        c = chr(b)
        mal += [c, "select " + c + " from t", "select a" + c + "b from t", "select a from t where a " + c + "= 1"]
    opchars = "!<>=.*/-+'\"(),;`\\ "
    for a in opchars:
        for b in opchars:
            mal += ["select a " + a + b + " 1", a + b]
    for a, b, c in itertools.product("!<>=", repeat=3):
        mal.append("select a " + a + b + c + " b from t where x" + a + b + c + "y")
    mal += ["select a ! = b", "select a !\n= b", "select a !", "select a <", "select a >", "select a !=", "select a ! b",
            "!=", "! =", "select a != = b", "select a <=> b", "select a <> b", "select a >== b", "select !a", "!=!=",
            "select a!=b,c>=d,e<=f,g<h,i>j,k=l", "select a !=", "select a>=", "select a<="]
    q = tier == "quick"
    big = [
        "select " + "a" * 100000,
        "select '" + "x" * 100000 + "'",
        " " * 100000 + "select 1",
        "select * from t where " + " and ".join("a=1" for _ in range(5000)),
        "select * from t where " + " or ".join("a=1" for _ in range(5000)),
        "select * from t where " + " or ".join("a=1 and b=2" for _ in range(1200 if q else 2500)),
        "select * from t where " + " and ".join("a" for _ in range(5000)),
        "select " + "a," * (3000 if q else 30000) + "a from t",
        "select * from t " + " ".join("join u on a=b" for _ in range(1000 if q else 3000)),
        "select * from t group by " + " ".join("a" for _ in range(5000 if q else 20000)),
        "select * from t order by " + ",".join("a" for _ in range(3000 if q else 20000)),
        "select * from t " + " ".join("limit 1 offset 2" for _ in range(1500 if q else 10000)),
        "insert into t values " + ",".join("(1,'a',true)" for _ in range(1000 if q else 8000)),
        "insert into t values (" + ",".join("1" for _ in range(4000 if q else 40000)) + ")",
        "update t set " + ",".join("a=1" for _ in range(1500 if q else 15000)),
        "create table t (" + ",".join("a int" for _ in range(2000 if q else 15000)) + ")",
        "(" * (10000 if q else 100000),
        "'" * (10001 if q else 100001),
        "select " + "1 and " * (3000 if q else 20000) + "1",
        "/*" + "x" * 100000,
        "select " + "." * (5000 if q else 50000),
    ]
    if not q:
        big += ["select * from t where " + " and ".join("a=1" for _ in range(20000)),
                "select * from t where " + " or ".join("a=1" for _ in range(20000))]
    for m in mal:
        cases.append(("malformed", m))
    for m in big:
        cases.append(("big", m))

    # random bytes over a SQL-flavoured alphabet
    alpha = list("abst_19 ,.()*=<>!'\";\n\t") + ["select", "from", "where", "and", "or", " ", " ", "limit", "\xff", "\x00",
                                                  "\xc5\xbf", "group by", "order by", "join", "on", "insert into",
                                                  "values", "count(", "avg(", "//", "/*", "*/", "`", "\\"]
    nrand = 1200 if tier == "quick" else 12000
    for _ in range(nrand):
        n = rng.randrange(1, 24)
        cases.append(("random-bytes", "".join(rng.choice(alpha) for _ in range(n))))
    # token soup: random lexemes of the language
    kws = sorted(sf.keyword_map())
    lexs = kws + ["a", "b", "t", "1", "2", "'s'", '"q"', "a.b", "count(*)", "avg(a)", "a=1", "databases"] * 4
    for _ in range(nrand):
        n = rng.randrange(1, 14)
        first = [rng.choice(STMT_KW)] if rng.random() < 0.8 else []
        cases.append(("token-soup", " ".join(first + [rng.choice(lexs) for _ in range(n)])))
    # mutations of valid statements
    for _ in range(nrand):
        if not stmts:
            break
        text, lex = rng.choice(stmts)
        lex = [t for t, _ in lex]
        for _k in range(rng.choice([1, 1, 2, 3])):
            if not lex:
                break
            i = rng.randrange(len(lex))
            r = rng.random()
            if r < 0.3:
                del lex[i]
            elif r < 0.5:
                lex.insert(i, lex[i])
            elif r < 0.7:
                lex[i] = rng.choice(lexs)
            elif r < 0.85 and len(lex) > 1:
                j = rng.randrange(len(lex))
                lex[i], lex[j] = lex[j], lex[i]
            else:
                lex.insert(i, rng.choice(lexs))
        cases.append(("mutation", " ".join(lex)))
    return cases


def targeted_token_cases(rng, tier):
    """token lists the lexer cannot produce (negative numerals, fence / EOF type numbers inside the
    list) and GROUP BY validation errors, plus random sequences over the full vocabulary"""
    S, F, LIM, OFF, STAR, C = T("SELECT"), T("FROM"), T("LIMIT"), T("OFFSET"), T("ASTRSK"), T("COMMA")
    t, a, b = T("IDENT", "t"), T("IDENT", "a"), T("IDENT", "b")
    i = lambda x: T("INT", x)
    base = [S, STAR, F, t]
    out = [base + [LIM, i("-1")], base + [OFF, i("-1")], base + [LIM, i("1"), OFF, i("-1")],
           base + [LIM, i("-1"), OFF, i("-1")], base + [LIM, i("5"), LIM, i("-1")], base + [LIM, i("+5")],
           base + [LIM, i("")], base + [LIM, i("-")], base + [LIM, i("-9223372036854775808")],
           base + [LIM, i("-9223372036854775809")], base + [OFF, i("9223372036854775807"), LIM, i("0")],
           base + [LIM, i("1"), LIM, i("2"), OFF, i("3"), OFF, i("4"), LIM],
           [T("CREATE"), T("TABLE"), t, T("LPAREN"), a, T("T_VARCHAR"), T("LPAREN"), i("-3"), T("RPAREN"), T("RPAREN")],
           [S, T("reserved_word_start")], [S, a, T("EQ"), T("reserved_word_start")],
           [T("INSERT"), T("INTO"), t, T("VALUES"), T("LPAREN"), T("reserved_word_start"), T("RPAREN")],
           [T("UPDATE"), t, T("SET"), a, T("EQ"), T("reserved_word_start")],
           [S, a, [-1, ""], F, t], [S, STAR, [-1, ""]], [[-1, ""], S, STAR], [S, STAR, F, t, [-1, ""], [-1, ""]],
           [S, T("literal_start")], [S, T("literal_end")], [S, [1000, "x"]], [S, a, [78, ""], [78, ""]],
           [S, T("COUNT"), T("LPAREN"), STAR, T("RPAREN"), C, a, F, t],
           [S, T("COUNT"), T("LPAREN"), STAR, T("RPAREN"), C, a, F, t, T("GROUP"), T("BY"), a],
           [S, a, C, a, F, t, T("GROUP"), T("BY"), a],
           [S, t, T("DOT"), a, C, b, T("DOT"), a, F, t, T("GROUP"), T("BY"), a],
           [S, t, T("DOT"), a, C, b, T("DOT"), a, F, t, T("GROUP"), T("BY"), t, T("DOT"), a, b, T("DOT"), a],
           [S, a, T("AS"), b, C, b, F, t, T("GROUP"), T("BY"), b],
           [S, a, b, F, t, T("GROUP"), T("BY"), b], [S, a, F, t, T("GROUP"), T("BY"), t, T("DOT"), a],
           [S, t, T("DOT"), a, F, t, T("GROUP"), T("BY"), a], [S, a, F, t, T("GROUP"), T("BY"), T("IDENT", "")],
           [S, T("AVG"), T("LPAREN"), T("RPAREN")], [S, T("AVG"), T("LPAREN"), STAR, T("RPAREN")],
           [T("SHOW"), T("IDENT", "DATABASES")], [T("SHOW"), T("IDENT", "databases ")], [T("SHOW"), T("STR", "databases")]]
    fv = full_vocab()
    nrand = 3000 if tier == "quick" else 30000
    for _ in range(nrand):
        n = rng.randrange(1, 12)
        seq = [T(rng.choice(STMT_KW))]
        focus = rng.random() < 0.7
        for _k in range(n):
            if focus:
                seq.append(rng.choice([a, b, t, i("1"), T("STR", "s"), C, T("DOT"), T("EQ"), T("AND"), T("OR"), F,
                                       T("WHERE"), T("LPAREN"), T("RPAREN"), STAR, LIM, OFF, T("GROUP"), T("ORDER"),
                                       T("BY"), T("JOIN"), T("ON"), T("AS"), T("COUNT"), T("AVG"), T("VALUES"),
                                       T("INTO"), T("SET"), T("TABLE"), T("T_INT"), T("T_VARCHAR"), T("TRUE"),
                                       T("DESC"), T("LEFT"), T("INNER"), T("NEQ"), i("-1"), i("x")]))
            else:
                seq.append(rng.choice(fv))
        out.append(seq)
    return out


# ----------------------------------------------------------------------------------------------
# evaluation
# ----------------------------------------------------------------------------------------------

def parse_case_term(obs):
    return "(%s, %s, %s)" % (cq_list(sf.raw_term(r) for r in obs["raw"]),
                             cq_list(sf.tok_term(t) for t in obs["toks"]), sf.gout_term(obs["out"]))


def run_parse(ctx, texts):
    ok, obs, lg = vlib.run_driver_parallel(ctx.bins["sql"], "parse", [{"text": t} for t in texts], nshards=12, resilient=True)
    if not ok or len(obs) != len(texts):
        raise RuntimeError("sql parse driver failed: " + lg[-2000:])
    # a fatal runtime error (stack exhaustion, out of memory) cannot be recovered in-process: the driver dies on
    # that text; it is an observation like a panic ("never ... exhausts memory"), reported with the text as input
    for i, o in enumerate(obs):
        if "_fatal" in o:
            obs[i] = {"raw": [], "toks": None, "out": {"k": "panic", "msg": "the process died: " + str(o["_fatal"])[:200]}}
    return obs


def eval_parse_cases(ctx, texts, name, obs=None):
    """-> (obs, MM idx, SM idx, scanner_fail idx)"""
    if obs is None:
        obs = run_parse(ctx, texts)
    scanner_fail = [i for i, o in enumerate(obs) if o["toks"] is None]
    idx = [i for i, o in enumerate(obs) if o["toks"] is not None]
    thunks = [(lambda o=obs[i]: parse_case_term(o)) for i in idx]
    sizes = [60 + 22 * (len(obs[i]["raw"]) + len(obs[i]["toks"])) + len(texts[i]) // 4 for i in idx]
    defs = {"SM": "parse_case_spec"}
    if ctx.model_ok:
        defs["MM"] = "parse_case_model"
    okc, res, lg = sf.eval_cases(name, thunks, sizes, "parse_case", defs)
    if not okc:
        raise RuntimeError("coq evaluation failed: " + lg[-3000:])
    return obs, [idx[j] for j in res.get("MM", [])], [idx[j] for j in res["SM"]], scanner_fail


def enum_requests(tier):
    """-> list of dict(label, vocab, n, prefix_tokens, prefix_idx, free)"""
    reqs = []
    fv = full_vocab()
    nfull = 3 if tier == "quick" else 4
    for n in range(0, nfull + 1):
        plen = max(0, n - 2)
        for prefix in itertools.product(range(len(fv)), repeat=plen):
            reqs.append({"label": "full-%d" % n, "vocab": fv, "n": n, "prefix": list(prefix), "pre_toks": [],
                         "vname": "VFULL"})
    for label, pre, vocab, n in reduced_vocabs(tier):
        # the statement keyword is a fixed prefix; shard on the first free symbol when the space is large
        plen = 1 if len(vocab) ** n > 40000 else 0
        if len(vocab) ** n > 2000000:
            plen = 2
        for prefix in itertools.product(range(len(vocab)), repeat=plen):
            reqs.append({"label": label, "vocab": vocab, "n": n, "prefix": list(prefix), "pre_toks": pre,
                         "vname": "V_" + re.sub(r"\W", "_", label)})
    return reqs


def seq_of_index(r, idx):
    v = r["vocab"]
    free = r["n"] - len(r["prefix"])
    digits = []
    for _ in range(free):
        digits.append(idx % len(v))
        idx //= len(v)
    digits.reverse()
    return r["pre_toks"] + [v[i] for i in r["prefix"]] + [v[i] for i in digits]


def enum_header(reqs):
    vdefs = {}
    for r in reqs:
        vdefs[r["vname"]] = r["vocab"]
    return sf.OBS_HEADER + "".join(
        "Definition %s : list token := %s.\n" % (nm, cq_list(sf.tok_term(t) for t in v)) for nm, v in vdefs.items())


def enum_term(r, o):
    free = r["n"] - len(r["prefix"])
    prefix = cq_list(sf.tok_term(t) for t in r["pre_toks"] + [r["vocab"][i] for i in r["prefix"]])
    rle = cq_list("(%d, %d%%N)" % (c, k) for c, k in o["rle"])
    return "(%s, %d%%nat, %s, %s)" % (r["vname"], free, prefix, rle)


def eval_enum(ctx, reqs, outs, name):
    """-> (header, MM request idx, SM request idx)"""
    header = enum_header(reqs)
    thunks = [(lambda r=r, o=o: enum_term(r, o)) for r, o in zip(reqs, outs)]
    sizes = [o["count"] for o in outs]
    defs = {"SM": "enum_case_spec"}
    if ctx.model_ok:
        defs["MM"] = "enum_case_model"
    total = sum(sizes)
    okc, res, lg = sf.eval_cases(name, thunks, sizes, "enum_case", defs, header=header,
                                 budget=max(20000, total // 12 + 1), maxn=10000)
    if not okc:
        raise RuntimeError("coq enum evaluation failed: " + lg[-3000:])
    return header, res.get("MM", []), res["SM"]


def enum_bad_indices(header, term, name):
    text = header + "Definition B := Eval vm_compute in enum_bad %s.\nPrint B.\n" % term
    rc, out = sf.run_coq_bytes(name, text, 1800)
    if rc != 0:
        return []
    return vlib._parse_def(out, "B") or []


def eval_tokens_cases(ctx, cases, name):
    """cases: list of (tokens, out json) -> (MM idx, SM idx)"""
    thunks = [(lambda toks=toks, out=out: "(%s, %s)" % (cq_list(sf.tok_term(t) for t in toks), sf.gout_term(out)))
              for toks, out in cases]
    sizes = [100 + 25 * len(toks) for toks, _ in cases]
    defs = {"SM": "tokens_case_spec"}
    if ctx.model_ok:
        defs["MM"] = "tokens_case_model"
    okc, res, lg = sf.eval_cases(name, thunks, sizes, "tokens_case", defs)
    if not okc:
        raise RuntimeError("coq evaluation failed: " + lg[-3000:])
    return res.get("MM", []), res["SM"]


def run_tokens(ctx, toklists):
    ok, outs, lg = vlib.run_driver_parallel(ctx.bins["sql"], "tokens", [{"toks": t} for t in toklists])
    if not ok or len(outs) != len(toklists):
        raise RuntimeError("sql tokens driver failed: " + lg[-2000:])
    return [o["out"] for o in outs]


# ----------------------------------------------------------------------------------------------
# static ties: token table, parseSQL's loop
# ----------------------------------------------------------------------------------------------

def check_table(ctx):
    ok, outs, lg = vlib.run_driver(ctx.bins["sql"], "table", [])
    if not ok or not outs:
        raise RuntimeError("sql table driver failed: " + lg[-2000:])
    t = outs[0]
    codes, texts = sf.load_tables()
    problems = []
    go_texts = {e["type"]: e["text"] for e in t["tokens"] if e["has"]}
    if go_texts != texts:
        problems.append("Tokens table differs from Gen/Params.v token_texts")
    if t["keywords"] != sf.keyword_map():
        problems.append("keywords map differs from the model's keyword_entries")
    want_lits = [c for c in range(codes["literal_start"] + 1, codes["literal_end"])]
    if t["literals"] != want_lits:
        problems.append("literals slice %r differs from %r" % (t["literals"], want_lits))
    if t["eof"] != -1:
        problems.append("EOFToken.Type = %r" % t["eof"])
    if t["join"] != {"FULL_JOIN": 0, "LEFT_JOIN": 1, "RIGHT_JOIN": 2, "INNER_JOIN": 3}:
        problems.append("join type constants changed: %r" % t["join"])
    return problems


def check_engine_parsesql(ctx, texts, obs):
    """engine.parseSQL (the real function) must give the same tree / error text as the sql-package
    driver's copy of its loop, on every input"""
    if "engine" not in ctx.bins:
        return []
    ok, outs, lg = vlib.run_driver_parallel(ctx.bins["engine"], "parsesql", [{"text": t} for t in texts], nshards=12)
    if not ok or len(outs) != len(texts):
        raise RuntimeError("engine parsesql driver failed: " + lg[-2000:])
    bad = []
    for i, (o, e) in enumerate(zip(obs, outs)):
        if o["toks"] is None:
            continue
        k = o["out"]["k"]
        if k != e["k"]:
            bad.append(i)
        elif k == "ok" and o.get("repr", "") != e.get("repr", ""):
            bad.append(i)
        elif k == "err" and o["out"].get("msg", "") != e.get("msg", ""):
            bad.append(i)
    return bad


# ----------------------------------------------------------------------------------------------
# shrinking
# ----------------------------------------------------------------------------------------------

def shrink_text(ctx, text, fails, rounds=14):
    """delta debugging on the byte string; `fails(list of texts) -> list of bool` is evaluated in batches"""
    cur = text
    chunk = max(1, len(cur) // 2)
    while chunk >= 1 and rounds > 0:
        cands = [cur[:i] + cur[i + chunk:] for i in range(0, len(cur), chunk)]
        cands = [c for c in cands if c != cur]
        if len(cands) > 400:
            cands = cands[:400]
        rounds -= 1
        res = fails(cands) if cands else []
        hit = [c for c, f in zip(cands, res) if f]
        if hit:
            cur = min(hit, key=len)
            chunk = min(chunk, max(1, len(cur) // 2))
        elif chunk == 1:
            break
        else:
            chunk //= 2
    return cur


def nontrivial_tokens(toks):
    codes, _ = sf.load_tables()
    return len(toks) >= 2 and toks[0][0] in [codes[k] for k in STMT_KW]


def run(ctx):
    """deeply nested trees (5000-long AND chains) need deep recursion in json / the converters:
    run everything in a thread with a large stack (worker threads inherit the size)"""
    import sys
    import threading
    sys.setrecursionlimit(max(sys.getrecursionlimit(), 2000000))
    threading.stack_size(512 * 1024 * 1024)
    box = {}

    def body():
        threading.stack_size(192 * 1024 * 1024)     # for the worker threads started from here
        try:
            box["r"] = _run(ctx)
        except BaseException as e:      # re-raised in the caller
            box["e"] = e
    th = threading.Thread(target=body)
    th.start()
    th.join()
    threading.stack_size(0)
    if "e" in box:
        raise box["e"]
    return box["r"]


def _run(ctx):
    out = {"spec_violations": [], "model_mismatches": [], "known": [],
           "correspondence_name": "parse_pipeline (Model/Lexer.v + Model/Parser.v) vs sql.NewTokenScanner + "
                                  "sql.Parser.Parse driven as engine.parseSQL: token lists, outcome class, trees"}
    cov = ctx.report.coverage
    t0 = time.time()

    def lap(what):
        vlib.log("  [c09 %6.1fs] %s" % (time.time() - t0, what))

    def sm_item(kind, payload, what):
        d = {"what": what, "input_kind": kind, "replay_cmd": "python3 tools/check.py C09 --replay <this file>"}
        d.update(payload)
        return d

    # ---- replay -------------------------------------------------------------------------------
    if ctx.replay and ("text" in ctx.replay or "tokens" in ctx.replay):
        if "text" in ctx.replay:
            obs, mm, sm, sf_ = eval_parse_cases(ctx, [ctx.replay["text"]], "c09_replay")
            o = {k: obs[0][k] for k in ("toks", "out")}
            if sm or sf_:
                out["spec_violations"].append(sm_item("text", {"text": ctx.replay["text"], "observed": o},
                                                      "the SQL front end panicked or hung"))
            elif mm:
                out["model_mismatches"].append({"text": ctx.replay["text"], "observed": o})
        else:
            g = run_tokens(ctx, [ctx.replay["tokens"]])
            mm, sm = eval_tokens_cases(ctx, [(ctx.replay["tokens"], g[0])], "c09_replay")
            if sm:
                out["spec_violations"].append(sm_item("tokens", {"tokens": ctx.replay["tokens"], "observed": g[0]},
                                                      "sql.Parser.Parse panicked or hung"))
            elif mm:
                out["model_mismatches"].append({"tokens": ctx.replay["tokens"], "observed": g[0]})
        return out

    # the engine harness (other builders' drivers live there too) is optional: without it the
    # cross-check of engine.parseSQL is skipped and reported as such
    try:
        eok, ebin, _ = vlib.build_go("engine")
        if eok:
            ctx.bins["engine"] = ebin
    except Exception:
        pass

    # ---- 0. static ties -------------------------------------------------------------------------
    for p in check_table(ctx):
        out["model_mismatches"].append({"table": p})

    # ---- 1. token-level enumeration ---------------------------------------------------------------
    reqs = enum_requests(ctx.tier)
    eouts = run_enum_simple(ctx, reqs)
    lap("go enumeration done: %d requests, %d sequences" % (len(reqs), sum(o["count"] for o in eouts)))
    header, emm, esm = eval_enum(ctx, reqs, eouts, "c09_enum")
    lap("coq enumeration done")
    nseq = sum(o["count"] for o in eouts)
    class_hist = {}
    for o in eouts:
        for c, k in o["rle"]:
            class_hist[c] = class_hist.get(c, 0) + k
    ok_cases = []
    for r, o in zip(reqs, eouts):
        for idx, ast in o["oks"]:
            ok_cases.append((seq_of_index(r, idx), {"k": "ok", "ast": ast}))
    if len(ok_cases) > 6000:
        ok_cases = ctx.rng.sample(ok_cases, 6000)
    tmm, tsm = eval_tokens_cases(ctx, ok_cases, "c09_enumok") if ok_cases else ([], [])

    def first_bad_seq(i, want_classes=None):
        r, o = reqs[i], eouts[i]
        classes = []
        for c, k in o["rle"]:
            classes += [c] * k
        if want_classes is not None:
            for j, c in enumerate(classes):
                if c in want_classes:
                    return seq_of_index(r, j)
            return None
        bad = enum_bad_indices(header, enum_term(r, o), "c09_enumbad")
        return seq_of_index(r, bad[0]) if bad else None

    for i in esm[:2]:
        seq = first_bad_seq(i, (100, 101))
        g = run_tokens(ctx, [seq])[0]
        out["spec_violations"].append(sm_item("tokens", {"tokens": seq, "observed": g},
                                              "sql.Parser.Parse panicked or hung on a token sequence"))
    for i in emm[:2]:
        seq = first_bad_seq(i)
        if seq is not None:
            g = run_tokens(ctx, [seq])[0]
            out["model_mismatches"].append({"tokens": seq, "observed": g, "enumeration": reqs[i]["label"]})
        else:
            out["model_mismatches"].append({"enumeration": reqs[i]["label"], "prefix": reqs[i]["prefix"]})
    for j in tmm[:2]:
        out["model_mismatches"].append({"tokens": ok_cases[j][0], "observed": ok_cases[j][1]})

    # ---- 1b. targeted / random token lists -----------------------------------------------------------
    tt = targeted_token_cases(ctx.rng, ctx.tier)
    tg = run_tokens(ctx, tt)
    ttmm, ttsm = eval_tokens_cases(ctx, list(zip(tt, tg)), "c09_tokens")
    for j in ttsm[:2]:
        out["spec_violations"].append(sm_item("tokens", {"tokens": tt[j], "observed": tg[j]},
                                              "sql.Parser.Parse panicked or hung on a token sequence"))
    for j in ttmm[:2]:
        out["model_mismatches"].append({"tokens": tt[j], "observed": tg[j]})
    tok_outcomes = {}
    for g in tg:
        tok_outcomes[sf.out_class(g)] = tok_outcomes.get(sf.out_class(g), 0) + 1

    # ---- 2. text inputs ---------------------------------------------------------------------------
    tcases = gen_text_cases(ctx.rng, ctx.tier)
    seen = set()
    uniq = []
    for kind, text in tcases:
        if text not in seen:
            seen.add(text)
            uniq.append((kind, text))
    texts = [t for _, t in uniq]
    lap("enumerated ok trees compared (%d); %d text inputs generated" % (len(ok_cases), len(texts)))
    obs = run_parse(ctx, texts)
    lap("go parse done")
    obs, mm, sm, scanfail = eval_parse_cases(ctx, texts, "c09_parse", obs)
    lap("coq parse cases done")
    eng_bad = check_engine_parsesql(ctx, texts, obs)
    lap("engine.parseSQL cross-check done")

    def fails_sm(cands):
        o = run_parse(ctx, cands)
        return [x["toks"] is None or x["out"]["k"] in ("panic", "timeout") for x in o]

    def fails_mm(cands):
        _, m, _, _ = eval_parse_cases(ctx, cands, "c09_shrink")
        ms = set(m)
        return [i in ms for i in range(len(cands))]

    for i in (scanfail + sm)[:2]:
        small = shrink_text(ctx, texts[i], fails_sm)
        o = run_parse(ctx, [small])[0]
        out["spec_violations"].append(sm_item("text", {"text": small, "original_kind": uniq[i][0],
                                                       "observed": {"toks": o["toks"], "out": o["out"]}},
                                              "the SQL front end panicked or hung on this input"))
    for i in mm[:2]:
        small = shrink_text(ctx, texts[i], fails_mm) if len(texts[i]) < 5000 else texts[i][:2000]
        o = run_parse(ctx, [small])[0]
        out["model_mismatches"].append({"text": small, "original_kind": uniq[i][0],
                                        "observed": {"raw": o["raw"], "toks": o["toks"], "out": o["out"]}})
    for i in eng_bad[:2]:
        out["model_mismatches"].append({"text": texts[i][:2000], "what": "engine.parseSQL and the sql-package copy of "
                                        "its loop disagree (parseSQL changed?)"})

    # ---- coverage ---------------------------------------------------------------------------------
    kinds, outcomes = {}, {}
    nontriv = set()
    maxlen = 0
    for (kind, text), o in zip(uniq, obs):
        kinds[kind] = kinds.get(kind, 0) + 1
        if o["toks"] is None:
            continue
        oc = sf.out_class(o["out"])
        outcomes[oc] = outcomes.get(oc, 0) + 1
        maxlen = max(maxlen, len(text))
        if nontrivial_tokens(o["toks"]):
            nontriv.add(text)
    enum_nontriv = 0
    codes, _ = sf.load_tables()
    stmt_codes = [codes[k] for k in STMT_KW]
    for r, o in zip(reqs, eouts):
        if r["pre_toks"]:
            enum_nontriv += o["count"]
        elif r["n"] >= 2:
            nfirst = sum(1 for t in r["vocab"] if t[0] in stmt_codes)
            if r["prefix"]:
                enum_nontriv += o["count"] if r["vocab"][r["prefix"][0]][0] in stmt_codes else 0
            else:
                enum_nontriv += o["count"] * nfirst // len(r["vocab"])
    cov.update({
        "evaluations": nseq + len(texts) + len(tt),
        "distinct_nontrivial": enum_nontriv + len(nontriv),
        "random_and_targeted_token_lists": len(tt),
        "token_list_outcomes": tok_outcomes,
        "rule": "an input is non-trivial when its token list starts with one of the seven statement keywords and has "
                "at least two tokens (the parser gets past Parse's dispatch); enumerated sequences are distinct by "
                "construction, text inputs are distinct by text",
        "go_trees_not_expressible_in_Ast_v": len(sf.UNREP),
        "traces_validated_against_impl": nseq + len(texts),
        "token_sequences_enumerated": nseq,
        "enumerations": {lbl: sum(o["count"] for r, o in zip(reqs, eouts) if r["label"] == lbl)
                         for lbl in sorted(set(r["label"] for r in reqs))},
        "full_vocabulary_size": len(full_vocab()),
        "enumeration_outcome_classes": {str(k): v for k, v in sorted(class_hist.items())},
        "enumerated_ok_trees_compared": len(ok_cases),
        "text_inputs": len(texts),
        "text_input_kinds": kinds,
        "text_outcomes": outcomes,
        "longest_text_input_bytes": maxlen,
        "raw_streams_checked_raw_ok": len(texts) - len(scanfail),
        "engine_parseSQL_cross_checked": len(texts) if "engine" in ctx.bins else 0,
        "exhaustive": "token sequences over the full vocabulary up to length %d; reduced vocabularies up to length %d"
                      % (3 if ctx.tier == "quick" else 4, 6 if ctx.tier == "quick" else 8),
        "partial": "raw scanner (sql/go_scanner.go) termination / panic-freedom is validated by the byte stream "
                   "above, not proved",
        "samples": [{"text": t[:80], "outcome": sf.out_class(o["out"])} for (k, t), o in
                    list(zip(uniq, obs))[:: max(1, len(uniq) // 4)][:4] if o["toks"] is not None],
    })
    return out


def run_enum_simple(ctx, reqs, maxoks=2000):
    # trees of the sequences that parse are compared one by one; when an enumeration is split into
    # many requests only the first few of each request are kept (they are sampled again later)
    per = max(10, min(maxoks, 60000 // max(1, len(reqs))))
    ins = [{"vocab": r["vocab"] + r["pre_toks"], "vsize": len(r["vocab"]), "n": r["n"] + len(r["pre_toks"]),
            "prefix": [len(r["vocab"]) + i for i in range(len(r["pre_toks"]))] + r["prefix"], "maxoks": per}
           for r in reqs]
    ok, outs, lg = vlib.run_driver_parallel(ctx.bins["sql"], "enum", ins, nshards=12, timeout=3000)
    if not ok or len(outs) != len(ins):
        raise RuntimeError("sql enum driver failed: " + lg[-2000:])
    return outs
