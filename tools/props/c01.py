"""C01 - table contents always equal what the statement history implies (no crashes).
Real engine + storage through Session.ExecQuery (SQL text) with the flush timer off; after every
statement SELECT * of every table and sys_schema, and page dumps, compared with the Coq model
(Model/Engine.v) and judged by the plain table specification (Spec/TableSpec.v)."""
import vlib
from props import hist

PROP_FILES = ["Properties/C01.v", "Properties/C01full.v"]
HARNESS = ["engine"]
ASSUMPTIONS = [
    "statements are written as SQL text and parsed by the real parser; the model receives the statement tree "
    "the generator intended (parser faithfulness is property C10)",
    "negative integer literals cannot be written in SQL text; they are covered by C08's direct-value runs",
]


def build_case(rng, tier, kind):
    if kind == "small":
        n = rng.randint(8, 40)
        sts, g = hist.gen_history(rng, n, max_tables=rng.choice([1, 2, 4]), long_rows=rng.choice([0, 0, 0.3]))
        dump_every = 1
    elif kind == "split":
        # deletes followed by growth past a split: tombstones in the half that moves
        g = hist.Gen(rng, 2)
        sts = [g.create(cols=[("a", "int", 0), ("b", "varchar", 255)])]
        name = sts[0]["table"]
        for _ in range(rng.randint(1, 3)):
            sts.append(g.insert(name, nrows=rng.randint(5, 8)))
            sts.append({"k": "delete", "table": name,
                        "where": [[(("col", "", "a"), rng.choice(["=", ">=", "!="]), max(0, g.counter - rng.randint(0, 4)))]]})
            sts.append(g.insert(name, nrows=rng.randint(2, 6)))
            sts.append(g.update(name))
        dump_every = 1
    elif kind == "reread":
        # rows whose length changes (longer, shorter, to and from the empty string) and deletes, then every page
        # is read again from the data file after a clean restart, and the history goes on
        g = hist.Gen(rng, 2)
        sts = [g.create(cols=[("a", "int", 0), ("b", "varchar", 255), ("c", "varchar", 40)])]
        name = sts[0]["table"]
        n = rng.randint(6, 20)
        sts.append({"k": "insert", "table": name, "cols": [],
                    "rows": [[i, "v%d" % i * rng.randint(0, 6), rng.choice(["", "x", "yy" * rng.randint(1, 8)])] for i in range(n)]})
        for _ in range(rng.randint(2, 5)):
            tgt = rng.randrange(n)
            newb = rng.choice(["", "q", "grown-" + "g" * rng.randint(5, 120), "s"])
            sts.append({"k": "update", "table": name, "sets": [("b", newb)] + ([("c", "k" * rng.randint(0, 30))] if rng.random() < 0.4 else []),
                        "where": [[(("col", "", "a"), rng.choice(["=", "=", "<="]), tgt)]]})
        if rng.random() < 0.5:
            sts.append({"k": "delete", "table": name, "where": [[(("col", "", "a"), "=", rng.randrange(n))]]})
        sts.append(g.insert(name, nrows=rng.randint(1, 4)))
        dump_every = 1
    elif kind == "manytables":
        # seven or more tables (the page table itself has split: its root is an internal node), then ONE table grows
        # until its root moves (the catalog row of that table is rewritten in a leaf below that root), then
        # statements on other tables follow
        g = hist.Gen(rng, 12)
        sts = []
        for i in range(rng.randint(7, 11)):
            sts.append(g.create(cols=[("a", "int", 0), ("b", "varchar", 20)]))
            if rng.random() < 0.4:
                sts.append(g.insert(nrows=1))
        names = sorted(g.tables)
        big = rng.choice(names)
        sts.append({"k": "insert", "table": big, "cols": [], "rows": [[i, "r%d" % i] for i in range(rng.randint(10, 22))]})
        for _ in range(rng.randint(1, 4)):
            sts.append(g.insert(rng.choice(names), nrows=rng.randint(1, 2)))
        sts.append(g.update(big))
        dump_every = 4
    elif kind == "catalog":
        # many tables: the catalog trees split and their roots move
        g = hist.Gen(rng, 60)
        sts = []
        for i in range(rng.randint(12, 40)):
            sts.append(g.create())
            if rng.random() < 0.5:
                sts.append(g.insert(nrows=rng.randint(1, 3)))
        dump_every = 5
    elif kind == "deep":
        # one table grown until an internal node that is NOT the root splits (three levels: needs
        # about 2000 rows with 9-cell leaves and 290-cell internal nodes), then point deletes all over
        g = hist.Gen(rng, 1)
        sts = [g.create(cols=[("a", "int", 0), ("b", "varchar", 10)])]
        name = sts[0]["table"]
        for i in range(205):
            sts.append({"k": "insert", "table": name, "cols": [], "rows": [[i * 12 + j, "r"] for j in range(12)]})
            if i == 120:
                sts.append({"k": "delete", "table": name, "where": [[(("col", "", "a"), "=", 700)]]})
            if i == 199:
                # recent rows changed, then moved to a new page by the splits of the last statements: after the restart
                # at the end their insert records are redone, their update / delete records name the old page
                sts.append({"k": "update", "table": name, "sets": [("b", "w")], "where": [[(("col", "", "a"), ">=", 199 * 12 + 5)]]})
                sts.append({"k": "delete", "table": name, "where": [[(("col", "", "a"), "=", 199 * 12 + 8)]]})
        for key in (5, 600, 1200, 1700, 2300):
            sts.append({"k": "delete", "table": name, "where": [[(("col", "", "a"), "=", key)]]})
        sts.append({"k": "update", "table": name, "sets": [("b", "u")], "where": [[(("col", "", "a"), "<", 30)]]})
        dump_every = 10 ** 9
    else:  # large: one table grown past internal-node splits (thorough tier)
        g = hist.Gen(rng, 1)
        sts = [g.create(cols=[("a", "int", 0), ("b", "varchar", 10)])]
        name = sts[0]["table"]
        for i in range(rng.randint(125, 145)):      # ~1500-1700 rows: the root becomes an internal node of internal nodes
            sts.append(g.insert(name, nrows=12))
            if i % 40 == 7:
                sts.append(g.delete(name))
                sts.append(g.update(name))
        dump_every = 45
    evs = []
    seen = []
    # a third of the short histories also shut down cleanly and restart once (flush, reopen): what
    # later statements read then comes from the data file, not from the cache
    reload_at = rng.randrange(2, len(sts)) if kind in ("small", "split") and len(sts) > 3 and rng.random() < 0.34 else None
    if kind == "reread":
        reload_at = len(sts) - 1          # after the updates and the delete, before the last insert
    for i, st in enumerate(sts):
        if i == reload_at:
            evs += [("flush",), ("crash",), ("tables", list(seen) + ["sys_schema"]), ("dump",)]
        evs.append(("stmt", st))
        if st["k"] == "create" and st["table"] not in seen:
            seen.append(st["table"])
        if kind == "large" and i % dump_every != 0 and i != len(sts) - 1:
            continue
        if kind == "deep" and i not in (122, len(sts) - 1):
            continue
        names = (seen[-6:] if kind == "catalog" else list(seen)) + ["sys_schema"]
        evs.append(("tables", names))
        if i % dump_every == 0 or kind == "deep":
            evs.append(("dump",))
    if kind == "deep":
        # reload: what was flushed is what is read back, through a cold cache
        evs += [("flush",), ("crash",), ("tables", list(seen) + ["sys_schema"]), ("dump",),
                ("stmt", {"k": "delete", "table": seen[0], "where": [[(("col", "", "a"), "=", 1500)]]}),
                ("stmt", {"k": "delete", "table": seen[0], "where": [[(("col", "", "a"), "=", 2450)]]}),
                ("tables", list(seen))]
    return evs


def corpus():
    """histories that once failed (known_findings.json 'fixed'), replayed first on every run"""
    dup = {"k": "create", "table": "t1", "cols": [("a", "int", 0), ("a", "int", 0)]}
    ok = {"k": "create", "table": "t2", "cols": [("a", "int", 0), ("b", "int", 0)]}
    obs = [("tables", ["t1", "t2", "sys_schema"]), ("dump",)]
    return [("corpus", [("stmt", dup)] + obs +
             [("stmt", {"k": "insert", "table": "t1", "cols": [], "rows": [[1, 2], [3, 4]]})] + obs +
             [("stmt", ok), ("stmt", {"k": "insert", "table": "t2", "cols": [], "rows": [[1, 2], [3, 4]]})] + obs +
             [("stmt", {"k": "insert", "table": "t2", "cols": ["a", "a"], "rows": [[5, 6]]})] + obs)]


def generate(rng, tier):
    plan = [("deep", 1), ("small", 24), ("split", 12), ("reread", 6), ("manytables", 3), ("catalog", 4)] if tier == "quick" else \
           [("deep", 1), ("small", 150), ("split", 60), ("reread", 40), ("manytables", 20), ("catalog", 20), ("large", 3)]
    cases = corpus()
    for kind, n in plan:
        for _ in range(n):
            cases.append((kind, build_case(rng, tier, kind)))
    return cases


def classify(evs, outs):
    """non-trivial: the history contains a leaf split with a tombstone in the moved half / a root
    relocation / a catalog-tree split. Measured from the page dumps: number of pages grows and a
    dumped leaf holds a deleted cell."""
    tags = set()
    npages = None
    roots = None
    for e, o in zip(evs, outs):
        if e[0] == "dump" and o.get("pages") is not None:
            leafs = [p for p in o["pages"] if p["leaf"]]
            ints = [p for p in o["pages"] if not p["leaf"]]
            if ints:
                tags.add("root_moved")
            if any(any(p["deleted"]) and p["hasL"] for p in leafs):
                tags.add("tombstone_in_moved_half")
            if any(p["off"] in (4096, 8192) and p["hasR"] for p in leafs):
                tags.add("catalog_split")
            if len(ints) > 1 and any(len(p["kids"]) > 0 and any(q["off"] == p["right"] and not q["leaf"] for q in ints) for p in ints):
                tags.add("height3")
    return tags


def run(ctx):
    if ctx.replay and "events" in ctx.replay:
        cases = [("replay", [tuple(e) for e in ctx.replay["events"]])]
    else:
        cases = generate(ctx.rng, ctx.tier)
    evs = [c[1] for c in cases]
    outs = hist.run_histories(ctx, evs)
    mm, sm = hist.eval_cases(ctx, "c01", evs, outs, shard=1 if ctx.tier == "quick" else 4, strict=True)
    tagcount = {}
    nontrivial = 0
    nst = 0
    for e, o in zip(evs, outs):
        tags = classify(e, o)
        nst += sum(1 for x in e if x[0] == "stmt")
        for t in tags:
            tagcount[t] = tagcount.get(t, 0) + 1
        if tags:
            nontrivial += 1
    kinds = {}
    for k, _ in cases:
        kinds[k] = kinds.get(k, 0) + 1
    ctx.report.coverage.update({
        "evaluations": len(cases),
        "distinct_nontrivial": nontrivial,
        "rule": "seeded statement histories (CREATE TABLE / multi-row INSERT / UPDATE / DELETE with WHERE, a few "
                "statements that fail before changing anything) over 1-60 tables run through Session.ExecQuery; "
                "after every statement SELECT * of every table and sys_schema plus a dump of every page are "
                "compared with the model; non-trivial = the page dumps show a root relocation, a tombstone in "
                "the half moved by a leaf split, or a split of a catalog tree (histories are generated "
                "independently, hence distinct)",
        "traces_validated_against_impl": len(cases),
        "statements_run": nst,
        "case_kinds": kinds,
        "histories_with_clean_restart": sum(1 for e in evs if any(x[0] == "crash" for x in e)),
        "histories_with": tagcount,
        "samples": [{"kind": cases[i][0], "first_statements": [hist.sql_stmt(x[1]) for x in evs[i] if x[0] == "stmt"][:6]}
                    for i in range(0, len(cases), max(1, len(cases) // 3))][:3],
    })
    out = {"spec_violations": [], "model_mismatches": [],
           "correspondence_name": "Spec.HistObs.model_agrees: run_h (Model/Engine.v) vs engine+storage, after every statement"}

    def shrink(i, which):
        ev = evs[i]
        stmts_idx = [j for j, x in enumerate(ev) if x[0] in ("stmt", "flush", "crash")]

        def rebuild(items):
            seen, res = [], []
            every = max(1, len(items) // 12)        # long histories: observe sparsely while shrinking
            for n, it in enumerate(items):
                res.append(it)
                if it[0] == "flush":
                    continue
                if it[0] == "stmt" and it[1]["k"] == "create" and it[1]["table"] not in seen:
                    seen.append(it[1]["table"])
                if n % every == 0 or n == len(items) - 1 or it[0] == "crash":
                    res.append(("tables", list(seen) + ["sys_schema"]))
                    res.append(("dump",))
            return res

        def fails(sts):
            e2 = rebuild(sts)
            try:
                o2 = hist.run_histories(ctx, [e2])
                m2, s2 = hist.eval_cases(ctx, "c01_shrink", [e2], o2, strict=True)
            except RuntimeError:
                return False
            return bool(m2 if which == "MM" else s2)
        sts = [ev[j] for j in stmts_idx]
        if not fails(sts):
            return ev, None
        small = hist.ddmin(sts, fails, budget=45)
        e2 = rebuild(small)
        o2 = hist.run_histories(ctx, [e2])
        return e2, o2[0]

    for i in sm[:1]:
        e2, o2 = shrink(i, "SM")
        out["spec_violations"].append({
            "events": [list(x) for x in e2], "sql": [hist.sql_stmt(x[1]) for x in e2 if x[0] == "stmt"],
            "observed": o2, "what": "table contents differ from the plain in-memory model of the statements (Spec/TableSpec.v)"})
    for i in mm[:1]:
        e2, o2 = shrink(i, "MM")
        out["model_mismatches"].append({"events": [list(x) for x in e2],
                                        "sql": [hist.sql_stmt(x[1]) for x in e2 if x[0] == "stmt"], "observed": o2})
    return out
