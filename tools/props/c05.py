"""C05 - single-table SELECT returns what its clauses mean.

Tables of 0-40 rows over the four column types are loaded into a real database; queries are
generated from the grammar as SQL TEXT (WHERE trees to depth 4 mixing AND/OR, select lists with
qualified names, aliases and expressions, 1-3 ORDER BY keys with forced ties, LIMIT/OFFSET at
the boundaries) and run through engine.EvaluateSelect. Coq evaluates the model (MM) and the
verified checker check_select of Spec/SelectSpec.v on what Go returned (SM)."""
import vlib
from props import selcommon as sc
from props import sqlfront

PROP_FILES = ["Properties/C05.v"]
HARNESS = ["engine"]
ASSUMPTIONS = [
    "the statement tree handed to the model is the one sql.Parser produced for the text (parser faithfulness is C10)",
    "table contents handed to the model are the inserted rows in insertion order (storage correctness is C01)",
    "int64 overflow is out of scope (Z arithmetic in the model)",
    "sort.Slice returns a permutation of its input that is sorted w.r.t. a comparison function which is a strict weak order",
]
SM_FN = "sm_c05"


def gen_select_list(rng, pool, tid):
    """returns (text, header entries usable by ORDER BY as list of (ref text, Col or None))"""
    if rng.random() < 0.25:
        return "*", [(c.ref(rng), c) for c in pool]
    items, hdr = [], []
    used_alias = set()
    for _ in range(rng.randrange(1, 5)):
        r = rng.random()
        if r < 0.7:
            c = rng.choice(pool)
            txt = c.ref(rng)
            name = c.name
            qual = c.tid
        elif r < 0.8:
            c, txt, name, qual = None, sc.lit_for(rng, rng.choice(pool)), None, None
        else:
            c, txt, name, qual = None, sc.gen_cond(rng, pool, rng.choice([0, 0, 1, 2])), None, None
        if rng.random() < 0.3:
            al = rng.choice(["x", "y", "z", "w", "k1", "a", "b"])
            if al not in used_alias:
                used_alias.add(al)
                txt += rng.choice([" AS ", " "]) + al
                name, qual = al, qual
        items.append(txt)
        if name is not None:
            hdr.append((name, qual, c))
    # ORDER BY may only use names that are unique in the header
    out = []
    for name, qual, c in hdr:
        same = [h for h in hdr if h[0] == name]
        if len(same) == 1:
            out.append((name if (qual is None or rng.random() < 0.6) else "%s.%s" % (qual, name), c))
    return ", ".join(items), out


def gen_case(rng, tier):
    nrows = rng.choice([0, 1, 2, 3, 5, 8, 12, 13, 14, 17, 20, 25, 31, 40])
    pnull = rng.choice([0.0, 0.0, 0.0, 0.15])
    t = sc.gen_table(rng, "t", ncols=rng.randrange(2, 6), nrows=nrows, pnull=pnull)
    ties = rng.random() < 0.5
    if ties:
        for i in range(len(t["cols"])):
            if rng.random() < 0.7:
                sc.force_ties(rng, t, i, rng.choice([1, 2, 3]))
    alias = rng.choice([None, None, "x", "tt"])
    tid = alias or "t"
    pool = sc.table_cols(t, tid)
    queries = []
    for _ in range(8 if tier == "quick" else 14):
        sel, hdr = gen_select_list(rng, pool, tid)
        q = "SELECT %s FROM t%s" % (sel, (" " + alias) if alias else "")
        # malformed stream: one query in ten gets type-confused operands / bare values
        confuse = 0.5 if rng.random() < 0.1 else 0.0
        if confuse and rng.random() < 0.3:
            q += " WHERE " + rng.choice(["1", "'a'", "0", "true", "false", "''"])     # a bare value as condition
        elif rng.random() < 0.75:
            q += " WHERE " + sc.gen_cond(rng, pool, rng.choice([0, 1, 2, 3, 4, 4]), confuse=confuse)
        if hdr and rng.random() < 0.7:
            keys = []
            for _ in range(rng.randrange(1, 4)):
                name, _c = rng.choice(hdr)
                keys.append(name + rng.choice(["", " ASC", " DESC", " DESC"]))
            q += " ORDER BY " + ", ".join(keys)
        lo = sc.gen_limit_offset(rng, nrows)
        if lo:
            q += " " + lo
        if rng.random() < 0.2:
            # longer than the scanner's 1024-byte read block, a keyword or name straddling a block boundary
            q = sqlfront.pad_to_buffer_boundary(rng, q)
        queries.append(q)
    return {"tables": [t], "queries": queries, "kind": "ties" if ties else "plain"}


def generate(rng, tier):
    n = 160 if tier == "quick" else 900
    return [gen_case(rng, tier) for _ in range(n)]


def nontrivial(case, r):
    """result is non-empty and differs from the unfiltered table"""
    if r.get("parse_err") or r["kind"] != "ok" or not r["rows"]:
        return False
    return r["rows"] != case["tables"][0]["rows"]


def run(ctx):
    if ctx.replay and "case" in ctx.replay:
        cases = [ctx.replay["case"]]
    else:
        cases = generate(ctx.rng, ctx.tier)
    obs, res, items = sc.evaluate(ctx, cases, "c05", SM_FN, {"WT": "wt_c05"})
    not_wt = set(res.get("WT", []))
    seen = set()
    nontriv = 0
    stats = {"rows_gt_12": 0, "order_by": 0, "order_by_with_ties": 0, "where_depth": {}, "where_mixes_and_or": 0,
             "limit_or_offset": 0, "well_typed": 0}
    for ci, qi in items:
        c, r = cases[ci], obs[ci]["results"][qi]
        a = r["ast"]
        if (ci, qi) not in not_wt:
            stats["well_typed"] += 1
        if len(c["tables"][0]["rows"]) > 12:
            stats["rows_gt_12"] += 1
        if a["sort"]:
            stats["order_by"] += 1
            if c.get("kind") == "ties":
                stats["order_by_with_ties"] += 1
        d = sc.cond_depth(a["where"])
        stats["where_depth"][d] = stats["where_depth"].get(d, 0) + 1
        if sc.cond_mixes(a["where"]):
            stats["where_mixes_and_or"] += 1
        if a["la"] or a["oa"]:
            stats["limit_or_offset"] += 1
        key = (str(c["tables"]), c["queries"][qi])
        if (ci, qi) not in not_wt and nontrivial(c, r) and key not in seen:
            seen.add(key)
            nontriv += 1
    ctx.report.coverage.update(sc.summarize(cases, obs))
    ctx.report.coverage.update({
        "evaluations": len(items),
        "distinct_nontrivial": nontriv,
        "rule": "a query is non-trivial when it is well-typed (wt_c05), Go returned rows, and the result is "
                "non-empty and differs from the unfiltered table; distinct by (table contents, query text)",
        "traces_validated_against_impl": len(items),
        "tables": len(cases),
        "distribution": stats,
        "exhaustive": False,
        "samples": [{"query": cases[ci]["queries"][qi], "rows_in_table": len(cases[ci]["tables"][0]["rows"]),
                     "go": {k: obs[ci]["results"][qi].get(k) for k in ("kind", "err")},
                     "first_rows": obs[ci]["results"][qi]["rows"][:2]}
                    for ci, qi in items[:: max(1, len(items) // 4)][:4]],
    })
    out = {"spec_violations": [], "model_mismatches": [], "known": [],
           "correspondence_name": "Model/Select.v select vs engine.EvaluateSelect (single table)"}
    sc.report_failures(ctx, out, cases, obs, res, "c05", SM_FN,
                       "EvaluateSelect result rejected by Spec.SelectSpec.check_select")
    return out
