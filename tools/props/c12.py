"""C12 - a page written to disk reads back as the same page.

Drives btreeNode.encode / decode and fileStore.update -> cold fetch (harness/storage/
zz_verif_codec_test.go, mode "pagecodec") and compares, inside Coq,
  MM: Go bytes == Model/PageCodec.encode_node bytes, Go decode == model decode (raw slot arrays,
      error class, panic), fetch through the file == model dispatch;
  SM: the property oracle Spec/PageCodecSpec.pc_spec_accepts on what Go returned (admissible node
      -> exactly one page, identical node back; encodable node -> same logical view)."""
import copy
import itertools
import json

import vlib
from vlib import cq_bool, cq_list, cq_opt

PROP_FILES = ["Properties/C12.v"]
HARNESS = ["storage"]
ASSUMPTIONS = [
    "encoding/binary, bytes.Buffer and os.File.WriteAt/ReadAt behave as documented (little-endian "
    "fixed-width fields; Buffer.Read returns io.EOF only on an empty buffer)",
    "leafCell.valueSize == len(valueBytes) for every cell the engine builds (all constructors in page.go keep it)",
    "memory limits are not modelled (a corrupt valueSize makes Go allocate up to 4 GiB)",
]

HEADER = """From Coq Require Import Init.Byte.
From Mkdb Require Import Model.CaseLib Model.PageCodec Spec.PageCodecSpec.
Open Scope N_scope.
"""

PAGE = 4096
MAXVAL = 400
MAXLEAF = 9
MAXINT = 290
U32 = 2 ** 32 - 1
U64 = 2 ** 64 - 1


# --------------------------------------------------------------------------------------
# Coq literals
# --------------------------------------------------------------------------------------

def chunks(b):
    """run-length form of a byte string: Zr n (n zero bytes) | Bs [x41;...]"""
    out = []
    i, n = 0, len(b)
    lit = []

    def flush():
        if lit:
            out.append("Bs [" + ";".join("x%02x" % x for x in lit) + "]")
            del lit[:]
    while i < n:
        if b[i] == 0:
            j = i
            while j < n and b[j] == 0:
                j += 1
            if j - i >= 6:
                flush()
                out.append("Zr %d" % (j - i))
            else:
                lit.extend(b[i:j])
            i = j
        else:
            lit.append(b[i])
            i += 1
    flush()
    return "[" + "; ".join(out) + "]"


def node_coq(n):
    offs = cq_list("%d" % o for o in n["offsets"])
    if n["leaf"]:
        cells = cq_list("lc %d %s %s" % (c["k"], cq_bool(c["d"]), chunks(bytes.fromhex(c["v"]))) for c in n["cells"])
        return "(NLeaf %d %d %s %s %d %d %s %s)" % (n["off"], n["lsn"], cq_bool(n["hasL"]), cq_bool(n["hasR"]),
                                                   n["lsib"], n["rsib"], offs, cells)
    cells = cq_list("mkIC %d %d" % (c["k"], c["o"]) for c in n["cells"])
    return "(NInternal %d %d %d %s %s)" % (n["off"], n["lsn"], n["right"], offs, cells)


class Mismatch(Exception):
    pass


def raw_coq(n):
    offs = cq_list("%d" % o for o in n["offsets"])
    if n["leaf"]:
        cs = []
        for c in n["cells"]:
            if c is None:
                cs.append("None")
            else:
                v = bytes.fromhex(c["v"])
                if c["sz"] != len(v):
                    raise Mismatch("decoded valueSize %d differs from len(valueBytes) %d" % (c["sz"], len(v)))
                cs.append("Some (lc %d %s %s)" % (c["k"], cq_bool(c["d"]), chunks(v)))
        return "(RLeaf %d %d %s %s %d %d %s %s)" % (n["off"], n["lsn"], cq_bool(n["hasL"]), cq_bool(n["hasR"]),
                                                   n["lsib"], n["rsib"], offs, cq_list(cs))
    cs = ["None" if c is None else "Some (mkIC %d %d)" % (c["k"], c["o"]) for c in n["cells"]]
    return "(RInternal %d %d %d %s %s)" % (n["off"], n["lsn"], n["right"], offs, cq_list(cs))


def dec_coq(d):
    st = d["st"]
    if st == "ok":
        return "(DOk %s)" % raw_coq(d["node"])
    if st == "err":
        return "(DErr %s)" % {"eof": "XEof", "badtype": "XBadType"}.get(d.get("e"), "XOther")
    if st == "panic":
        return "DPanic"
    return "DSkip"


def enc_coq(e):
    st = e["st"]
    if st == "ok":
        return "(EOk %s)" % chunks(bytes.fromhex(e["hex"]))
    return {"panic": "EPanic", "err": "EErr", "none": "ENone"}[st]


def case_coq(c, o):
    raw = cq_opt(chunks(bytes.fromhex(c["raw"])) if c.get("raw") is not None else None)
    patch = cq_list("(%d,%d)" % (p, v) for p, v in c.get("patch", []))
    tr = c.get("trunc")
    trunc = cq_opt("%d" % tr if tr is not None and tr >= 0 else None)
    return "mkPC %s %s %s %s %s %s %s" % (node_coq(c["node"]), raw, patch, trunc,
                                         enc_coq(o["enc"]), dec_coq(o["dec"]), dec_coq(o["fetch"]))


def hdr_coq(c, o):
    h = c["hdr"]
    back = cq_opt("(mkHeader %d %d %d %d)" % tuple(o["back"]) if o.get("st") == "ok" else None)
    return "mkHC (mkHeader %d %d %d %d) %s %s" % (h[0], h[1], h[2], h[3], chunks(bytes.fromhex(o["hex"])), back)


# --------------------------------------------------------------------------------------
# generators
# --------------------------------------------------------------------------------------

def rbytes(rng, n):
    mode = rng.randrange(4)
    if mode == 0:
        return bytes(rng.randrange(256) for _ in range(n))
    if mode == 1:
        return bytes([rng.choice([0, 255, 1, 0x41])]) * n
    if mode == 2:
        return bytes(rng.choice([0, 0, 0, 255, 7]) for _ in range(n))
    return bytes((i * 7 + 3) % 256 for i in range(n))


def rkey(rng):
    return rng.choice([0, 1, U32, U32 - 1, rng.randrange(U32 + 1), rng.randrange(1, 5000)])


def r64(rng):
    return rng.choice([0, PAGE, 2 * PAGE, U64, U64 - 1, 2 ** 63, rng.randrange(U64 + 1), PAGE * rng.randrange(1, 3000)])


def roff(rng):
    """page position used for the file round trip: small multiples of the page size, sometimes huge"""
    r = rng.random()
    if r < 0.8:
        return PAGE * rng.randrange(1, 64)
    if r < 0.9:
        return rng.randrange(28, 2 ** 20)
    return r64(rng)


def mk_leaf(rng, vals, dels, offsets=None, nslots=None, flags=None, **kw):
    k = len(vals)
    cells = [{"k": kw.get("keys", [None] * k)[i] if kw.get("keys") else rkey(rng), "d": bool(dels[i]), "v": vals[i].hex(), "o": 0}
             for i in range(k)]
    extra = (nslots or k) - k
    for _ in range(extra):
        cells.append({"k": rkey(rng), "d": rng.random() < 0.3, "v": rbytes(rng, rng.randrange(0, 40)).hex(), "o": 0})
    hasL, hasR = flags if flags is not None else (rng.random() < 0.5, rng.random() < 0.5)
    return {"leaf": True, "off": kw.get("off", roff(rng)), "lsn": kw.get("lsn", r64(rng)), "hasL": hasL, "hasR": hasR,
            "lsib": r64(rng), "rsib": r64(rng), "right": 0,
            "offsets": list(offsets) if offsets is not None else list(range(k)), "cells": cells}


def mk_internal(rng, k, offsets=None, nslots=None, **kw):
    cells = [{"k": rkey(rng), "d": False, "v": "", "o": r64(rng)} for _ in range(nslots or k)]
    return {"leaf": False, "off": kw.get("off", roff(rng)), "lsn": kw.get("lsn", r64(rng)), "hasL": False, "hasR": False,
            "lsib": 0, "rsib": 0, "right": r64(rng),
            "offsets": list(offsets) if offsets is not None else list(range(k)), "cells": cells}


def perm(rng, k):
    p = list(range(k))
    rng.shuffle(p)
    return p


def case(node, kind, **kw):
    c = {"node": node, "foff": kw.pop("foff", node["off"]), "kind": kind}
    c.update(kw)
    return c


def structural_positions(node):
    """byte positions worth corrupting: tag, cell count, offsets array, freeSize, first cell header"""
    k = len(node["offsets"])
    base = 39 if node["leaf"] else 29
    pos = [0, base - 4, base - 3]                       # tag, cellCount low bytes
    pos += [base + i for i in range(min(2 * k, 8))]     # offsets
    pos += [base + 2 * k, base + 2 * k + 1]             # freeSize
    return pos


def generate(rng, tier):
    quick = tier == "quick"
    cases = []
    sizes = [0, 1, MAXVAL - 1, MAXVAL]
    # 1. exhaustive small leaves: 0-3 cells x value sizes {0,1,399,400}; flags and tombstone
    #    patterns: all combinations (thorough) or cycled so that every combination occurs (quick)
    cyc = itertools.count()
    for k in range(0, 4):
        for sz in itertools.product(sizes, repeat=k):
            combos = list(itertools.product(itertools.product([False, True], repeat=2),
                                            itertools.product([False, True], repeat=k)))
            if quick:
                combos = [combos[next(cyc) % len(combos)]]
            for flags, dels in combos:
                vals = [rbytes(rng, s) for s in sz]
                cases.append(case(mk_leaf(rng, vals, dels, offsets=perm(rng, k), flags=flags), "small_leaf"))
    # 2. small internal nodes with boundary keys / child offsets
    for k in range(0, 4):
        for _ in range(6 if quick else 40):
            cases.append(case(mk_internal(rng, k, offsets=perm(rng, k)), "small_internal"))
    # 3. random larger nodes
    for _ in range(110 if quick else 1500):
        k = rng.randrange(4, MAXLEAF + 1)
        vals = [rbytes(rng, rng.choice([0, 1, MAXVAL, MAXVAL - 1, rng.randrange(MAXVAL + 1)])) for _ in range(k)]
        dels = [rng.random() < 0.3 for _ in range(k)]
        cases.append(case(mk_leaf(rng, vals, dels, offsets=perm(rng, k)), "random_leaf"))
    for _ in range(50 if quick else 600):
        k = rng.choice([4, 17, 100, 255, 256, 257, rng.randrange(4, MAXINT + 1)])
        cases.append(case(mk_internal(rng, k, offsets=perm(rng, k)), "random_internal"))
    # 4. maximum occupancy
    for i in range(24 if quick else 300):
        k = MAXLEAF if i % 3 else MAXLEAF - 1
        vals = [rbytes(rng, MAXVAL) for _ in range(k)]
        dels = [rng.random() < 0.5 for _ in range(k)]
        n = mk_leaf(rng, vals, dels, offsets=perm(rng, k))
        if i % 4 == 0:
            n.update(off=PAGE * (i + 1), lsn=U64, lsib=U64, rsib=U64, hasL=True, hasR=True)
            for c in n["cells"]:
                c["k"] = U32
        cases.append(case(n, "max_leaf", foff=n["off"]))
    for i in range(16 if quick else 200):
        k = MAXINT if i % 3 else MAXINT - 1
        n = mk_internal(rng, k, offsets=perm(rng, k))
        if i % 4 == 0:
            n.update(lsn=U64, right=U64)
            for c in n["cells"]:
                c["k"], c["o"] = U32, U64
        cases.append(case(n, "max_internal"))
    # 5. left half of a split: slot array longer than the offsets array
    for i in range(40 if quick else 400):
        if i % 2 == 0:
            m = rng.randrange(2, MAXLEAF + 1)
            k = m // 2 if i % 4 == 0 else rng.randrange(0, m)
            vals = [rbytes(rng, rng.choice([0, 3, MAXVAL])) for _ in range(k)]
            offs = list(range(k)) if i % 8 < 4 else perm(rng, k)
            cases.append(case(mk_leaf(rng, vals, [rng.random() < 0.3 for _ in range(k)], offsets=offs, nslots=m,
                                      flags=(rng.random() < 0.5, True)), "split_left"))
        else:
            m = rng.choice([2, 5, 9, 100, MAXINT])
            k = m // 2
            offs = list(range(k)) if i % 8 < 5 else perm(rng, k)
            cases.append(case(mk_internal(rng, k, offsets=offs, nslots=m), "split_left"))
    # 6. outside `encodable` (malformed in-memory nodes)
    for i in range(40 if quick else 400):
        t = i % 6
        if t == 0:      # live offset >= live count but inside the slot array: page decodes with a panic
            m = rng.randrange(3, MAXLEAF + 1)
            k = rng.randrange(1, m)
            offs = rng.sample(range(m), k)
            n = mk_leaf(rng, [rbytes(rng, 2) for _ in range(k)], [False] * k, offsets=list(range(k)), nslots=m)
            n["offsets"] = offs
            cases.append(case(n, "offset_beyond_count"))
        elif t == 1:    # offset outside the slot array: encode panics
            k = rng.randrange(1, 5)
            n = mk_leaf(rng, [rbytes(rng, 2) for _ in range(k)], [False] * k)
            n["offsets"][rng.randrange(k)] = k + rng.randrange(0, 3)
            cases.append(case(n, "offset_out_of_slots"))
        elif t == 2:    # duplicate offsets: decode leaves a nil slot
            k = rng.randrange(2, 6)
            n = mk_leaf(rng, [rbytes(rng, 3) for _ in range(k)], [False] * k) if i % 12 < 6 else mk_internal(rng, k)
            a, b = rng.sample(range(k), 2)
            n["offsets"][a] = n["offsets"][b]
            cases.append(case(n, "duplicate_offsets"))
        elif t == 3:    # more than fits: encode panics
            k = MAXLEAF + 1 + rng.randrange(0, 2)
            n = mk_leaf(rng, [rbytes(rng, MAXVAL) for _ in range(k)], [False] * k, offsets=perm(rng, k))
            cases.append(case(n, "overfull"))
        elif t == 4:    # a value above the limit in a page that still fits
            k = rng.randrange(1, 4)
            vals = [rbytes(rng, rng.choice([MAXVAL + 1, 600, 1200])) for _ in range(k)]
            cases.append(case(mk_leaf(rng, vals, [False] * k), "oversize_value"))
        else:           # internal node one cell above capacity
            k = MAXINT + 1
            cases.append(case(mk_internal(rng, k, offsets=perm(rng, k)), "overfull"))
    # 7. corrupted pages: structural bytes edited, or the file ends early
    for i in range(60 if quick else 600):
        if i % 2:
            k = rng.randrange(0, 5)
            n = mk_leaf(rng, [rbytes(rng, rng.randrange(0, 30)) for _ in range(k)], [rng.random() < 0.3 for _ in range(k)],
                        offsets=perm(rng, k), off=PAGE)
        else:
            n = mk_internal(rng, rng.randrange(0, 6), off=PAGE)
            n["offsets"] = perm(rng, len(n["offsets"]))
        c = case(n, "patched", foff=PAGE)
        r = rng.random()
        if r < 0.6:
            pos = structural_positions(n)
            c["patch"] = [[rng.choice(pos), rng.choice([0, 1, 2, 3, 5, 9, 255, rng.randrange(256)])]
                          for _ in range(rng.randrange(1, 3))]
        elif r < 0.8:
            c["trunc"] = rng.choice([0, 1, 20, 38, 39, 40, 41, 45, 100, PAGE - 1, rng.randrange(PAGE)])
        else:
            # the value-size field of the last cell in the page (low two bytes only: the model pads with zeros)
            if n["leaf"] and n["offsets"]:
                last = n["cells"][n["offsets"][-1]]
                pos = PAGE - len(bytes.fromhex(last["v"])) - 4
                c["patch"] = [[pos, rng.randrange(256)], [pos + 1, rng.choice([0, 0, 1, 16])]]
            else:
                c["patch"] = [[0, rng.choice([1, 2, 77, 255])]]
        cases.append(c)
    # 8. arbitrary bytes as a page
    for i in range(20 if quick else 200):
        ln = rng.choice([0, 1, 30, 41, 500, PAGE, PAGE])
        b = bytearray(rng.choice([0, 0, 0, 1, 255]) for _ in range(ln))
        if ln:
            b[0] = rng.choice([0, 1, 1, 2, 255])
        for p in range(1, min(ln, 60)):
            if rng.random() < 0.15:
                b[p] = rng.randrange(4)
        if ln > 42:
            b[(37 if b[0] == 1 else 27) + 2] = 0      # keep the cell count below 2^16
            b[(37 if b[0] == 1 else 27) + 3] = 0
        n = mk_leaf(rng, [], [], off=PAGE) if i % 2 else mk_internal(rng, 0, off=PAGE)
        cases.append(case(n, "raw", raw=bytes(b).hex(), foff=PAGE))
    return cases


def gen_headers(rng, tier):
    out = [[0, 0, 0, 0], [U32, U64, U64, U64], [1, PAGE, 3 * PAGE, 1]]
    for _ in range(20 if tier == "quick" else 200):
        out.append([rkey(rng), r64(rng), r64(rng), r64(rng)])
    return [{"hdr": h} for h in out]


# --------------------------------------------------------------------------------------
# python-side view of `encodable` (only for the coverage statistics)
# --------------------------------------------------------------------------------------

def py_encodable(n):
    k = len(n["offsets"])
    cap = MAXLEAF if n["leaf"] else MAXINT
    if k > cap or k > len(n["cells"]) or sorted(n["offsets"]) != list(range(k)):
        return False
    if n["leaf"]:
        return all(len(n["cells"][o]["v"]) // 2 <= MAXVAL for o in n["offsets"])
    return True


def features(c):
    n = c["node"]
    t = set()
    if not py_encodable(n) or c.get("patch") or c.get("raw") is not None or c.get("trunc") is not None:
        return t
    k = len(n["offsets"])
    if k == 0:
        return t
    t.add("cells")
    if n["offsets"] != list(range(k)):
        t.add("permuted_offsets")
    if len(n["cells"]) > k:
        t.add("slots_longer_than_offsets")
    if n["leaf"]:
        if any(n["cells"][o]["d"] for o in n["offsets"]):
            t.add("tombstone")
        if n["hasL"] or n["hasR"]:
            t.add("sibling_link")
        if k >= MAXLEAF - 1:
            t.add("max_occupancy")
        if any(len(n["cells"][o]["v"]) // 2 == MAXVAL for o in n["offsets"]):
            t.add("max_value")
    elif k >= MAXINT - 1:
        t.add("max_occupancy")
    return t


# --------------------------------------------------------------------------------------
# evaluation
# --------------------------------------------------------------------------------------

def go_input(c):
    d = {"node": c["node"], "foff": c["foff"]}
    for f in ("raw", "patch", "trunc"):
        if c.get(f) is not None:
            d[f] = c[f]
    return d


def evaluate(ctx, cases, name, shard=40):
    ok, obs, lg = vlib.run_driver_parallel(ctx.bins["storage"], "pagecodec", [go_input(c) for c in cases])
    if not ok or len(obs) != len(cases):
        raise RuntimeError("pagecodec driver failed: " + lg[-2000:])
    terms, pre_mm = [], []
    for i, (c, o) in enumerate(zip(cases, obs)):
        try:
            terms.append(case_coq(c, o))
        except Mismatch as e:
            pre_mm.append(i)
            o["harness_note"] = str(e)
            o2 = copy.deepcopy(o)
            o2["dec"] = {"st": "skip"}
            o2["fetch"] = {"st": "skip"}
            terms.append(case_coq(c, o2))
    defs = {"SM": "pc_spec_accepts"}
    if ctx.model_ok:
        defs["MM"] = "pc_model_agrees"
    okc, res, lg = vlib.run_coq_cases(name, HEADER, terms, "pc_case", defs, shard=shard)
    if not okc:
        raise RuntimeError("coq evaluation failed: " + lg[-3000:])
    return obs, sorted(set(res.get("MM", []) + pre_mm)), res["SM"]


def evaluate_headers(ctx, hcases, name):
    ok, obs, lg = vlib.run_driver(ctx.bins["storage"], "pagecodec", hcases)
    if not ok or len(obs) != len(hcases):
        raise RuntimeError("pagecodec driver (headers) failed: " + lg[-2000:])
    terms = [hdr_coq(c, o) for c, o in zip(hcases, obs)]
    defs = {"SM": "hdr_spec_accepts"}
    if ctx.model_ok:
        defs["MM"] = "hdr_model_agrees"
    okc, res, lg = vlib.run_coq_cases(name, HEADER, terms, "hdr_case", defs, shard=500)
    if not okc:
        raise RuntimeError("coq evaluation failed: " + lg[-3000:])
    return obs, res.get("MM", []), res["SM"]


def shrink(ctx, c, which):
    """greedy reduction of a failing page case: fewer edits, fewer cells, shorter values, zeroed fields"""
    def fails(x):
        try:
            _, mm, sm = evaluate(ctx, [x], "c12_shrink")
        except RuntimeError:
            return False
        return bool(mm if which == "MM" else sm)

    def candidates(x):
        n = x["node"]
        if x.get("patch"):
            for i in range(len(x["patch"])):
                y = copy.deepcopy(x)
                del y["patch"][i]
                if not y["patch"]:
                    del y["patch"]
                yield y
        k = len(n["offsets"])
        # drop the live cell in the highest slot (keeps offsets a permutation)
        if k and sorted(n["offsets"]) == list(range(k)) and len(n["cells"]) >= k:
            y = copy.deepcopy(x)
            y["node"]["offsets"].remove(k - 1)
            del y["node"]["cells"][k - 1]
            yield y
        if len(n["cells"]) > k:
            y = copy.deepcopy(x)
            del y["node"]["cells"][-1]
            yield y
        for i, cell in enumerate(n["cells"]):
            if n["leaf"] and len(cell["v"]) > 2:
                y = copy.deepcopy(x)
                y["node"]["cells"][i]["v"] = cell["v"][: 2 * (len(cell["v"]) // 4)]
                yield y
            for f, z in (("k", 0), ("o", 0), ("d", False)):
                if cell[f] != z:
                    y = copy.deepcopy(x)
                    y["node"]["cells"][i][f] = z
                    yield y
        for f, z in (("lsn", 0), ("lsib", 0), ("rsib", 0), ("right", 0), ("hasL", False), ("hasR", False)):
            if n[f] != z:
                y = copy.deepcopy(x)
                y["node"][f] = z
                yield y
        if n["off"] != PAGE:
            y = copy.deepcopy(x)
            y["node"]["off"] = PAGE
            y["foff"] = PAGE
            yield y

    cur = copy.deepcopy(c)
    budget = 40
    progress = True
    while progress and budget > 0:
        progress = False
        for cand in candidates(cur):
            budget -= 1
            if budget < 0:
                break
            if fails(cand):
                cur = cand
                progress = True
                break
    return cur


def run(ctx):
    if ctx.replay and "case" in ctx.replay:
        rc = ctx.replay["case"]
        cases, hcases = ([], [rc]) if "hdr" in rc else ([rc], [])
    else:
        cases = generate(ctx.rng, ctx.tier)
        hcases = gen_headers(ctx.rng, ctx.tier)
    obs, mm, sm = evaluate(ctx, cases, "c12") if cases else ([], [], [])
    hobs, hmm, hsm = evaluate_headers(ctx, hcases, "c12_hdr") if hcases else ([], [], [])

    kinds, feats, outcomes = {}, {}, {}
    seen = set()
    nontrivial = 0
    for c, o in zip(cases, obs):
        kinds[c.get("kind", "replay")] = kinds.get(c.get("kind", "replay"), 0) + 1
        f = features(c)
        for t in f:
            feats[t] = feats.get(t, 0) + 1
        key = "enc=%s dec=%s fetch=%s" % (o["enc"]["st"], o["dec"]["st"], o["fetch"]["st"])
        outcomes[key] = outcomes.get(key, 0) + 1
        sig = json.dumps(c["node"], sort_keys=True)
        if f and o["fetch"]["st"] == "ok" and sig not in seen:
            seen.add(sig)
            nontrivial += 1
    ctx.report.coverage.update({
        "evaluations": len(cases) + len(hcases),
        "pages": len(cases),
        "headers": len(hcases),
        "distinct_nontrivial": nontrivial,
        "rule": "a case is non-trivial when the node is encodable (offsets a permutation of 0..k-1, within "
                "capacity and value limit), has at least one live cell, and was encoded, decoded directly AND "
                "written by fileStore.update and fetched by a cold fileStore; distinct by the node's content",
        "traces_validated_against_impl": len(cases) + len(hcases),
        "case_kinds": kinds,
        "nontrivial_features": feats,
        "go_outcomes": outcomes,
        "exhaustive": "leaf nodes with 0-3 cells x value sizes {0,1,399,400}^cells (flags and tombstone patterns "
                      + ("cycled" if ctx.tier == "quick" else "all combinations") + ")",
        "samples": [{"node": {k: (v if k != "cells" else "%d cells" % len(v)) for k, v in c["node"].items()},
                     "kind": c.get("kind"), "go": {k: o[k]["st"] for k in ("enc", "dec", "fetch")}}
                    for c, o in list(zip(cases, obs))[:: max(1, len(cases) // 4)][:4]],
    })
    out = {"spec_violations": [], "model_mismatches": [], "correspondence_name":
           "Model/PageCodec.v encode_node / decode_*_raw / decode_page_raw vs btreeNode.encode / decode / "
           "fileStore.update+fetch, byte for byte"}

    def strip(o):
        o = copy.deepcopy(o)
        if "hex" in o.get("enc", {}) and len(o["enc"]["hex"]) > 400:
            o["enc"]["hex"] = o["enc"]["hex"][:200] + "..." + o["enc"]["hex"][-100:]
        return o
    for i in sm[:2]:
        small = shrink(ctx, cases[i], "SM")
        o2, _, _ = evaluate(ctx, [small], "c12_final")
        out["spec_violations"].append({
            "case": small, "observed": strip(o2[0]),
            "what": "page does not read back as the node that was written "
                    "(Spec.PageCodecSpec.pc_spec_accepts rejects Go's encode/decode/fetch results)",
            "replay_cmd": "python3 tools/check.py C12 --replay <this file>"})
    for i in mm[:2]:
        small = shrink(ctx, cases[i], "MM")
        o2, _, _ = evaluate(ctx, [small], "c12_final")
        out["model_mismatches"].append({"case": small, "observed": strip(o2[0])})
    for i in hsm[:1]:
        out["spec_violations"].append({"case": hcases[i], "observed": hobs[i],
                                       "what": "file header does not read back as written"})
    for i in hmm[:1]:
        out["model_mismatches"].append({"case": hcases[i], "observed": hobs[i]})
    return out
