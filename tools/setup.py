#!/usr/bin/env python3
"""Run once after a fresh restore (MANIFEST.setup_cmd): builds the Coq development and the Go
drivers from files on disk only (offline)."""
import os
import sys
sys.path.insert(0, os.path.dirname(os.path.abspath(__file__)))
import vlib

cb = vlib.build_coq()
print("coq build ok=%s wall=%.1fs failed=%s" % (cb.ok, cb.wall, cb.failed_files))
if not cb.ok:
    print(cb.log[-4000:])
rc = 0 if cb.ok else 1
for h in vlib.HARNESS_PKGS:
    if os.path.isdir(os.path.join(vlib.VERIF, "harness", h)) and any(
            f.endswith(".go") for f in os.listdir(os.path.join(vlib.VERIF, "harness", h))):
        ok, binp, out = vlib.build_go(h)
        print("go harness %s ok=%s" % (h, ok))
        if not ok:
            print(out[-3000:])
            rc = 1
sys.exit(rc)
