#!/usr/bin/env python3
"""Writes MANIFEST.json from the table below (kept as code so it is always valid)."""
import json, os
V = os.path.dirname(os.path.dirname(os.path.abspath(__file__)))

BASE_OFF = "cd /repo && go test -vet=off -count=1 ./..."

CHECKS = {
 "C15": dict(
    text="Machine-checked proof (Coq) over the executable model of lru.go that, for every operation list and "
         "capacity, the cache never exceeds capacity, lookups return the latest stored value until evicted, the "
         "victim is the least recently used clean entry, dirty entries are never evicted and insertion is refused "
         "iff the cache is full of dirty entries; the model is tied to storage.LRUCache by step-by-step "
         "differential runs (exhaustive depth-3 small scope + random long runs + long runs at capacities 300..10000 "
         "with hundreds to thousands of dirty entries at the cold end) evaluated inside Coq, and the Go "
         "traces are independently judged by a property oracle (Spec/LruSpec.v).",
    note="Trusted: Coq kernel + vm_compute; hand-written model Model/Lru.v (tie = correspondence, a sample); Go "
         "overlay driver; container/list and map semantics. No axioms.",
    technique="Coq proof (invariant by induction over operation lists) + model/implementation correspondence",
    design="6/C15"),
}

CHECKS.update({
 "C01": dict(
    text="Coq theorems about the executable model of btree.go/page.go/relation.go (inductive tree with page labels): "
         "for trees of any height an insertion above the maximum appends exactly one cell to the in-order cell list "
         "(tombstones and all other cells untouched) through leaf/internal/root splits and allocates only fresh pages; "
         "scans by stored sibling offsets return exactly the live cells in insertion order in every reachable state; "
         "UPDATE/DELETE rewrite exactly the addressed cell; row ids strictly increasing and at most lastKey, no page "
         "shared between tables. The end-to-end statement (C01_full_statement: SELECT * through the catalog equals the "
         "plain table specification) is stated but not yet proved; it is checked on every run by running seeded "
         "histories on the real engine and comparing, after every statement, every table, sys_schema and every page "
         "(offset, LSN, dirty flag, sibling fields, cells) with the model, and the tables with Spec/TableSpec.v.",
    note="PARTIAL proof (see Properties/C01.v header). Trusted: Coq kernel + vm_compute; hand-written model "
         "(Model/Tree.v, Store.v, Engine.v, Tuple.v) tied to the Go code by correspondence only; SQL text parsed by the "
         "real parser while the model receives the intended statement tree (C10). No axioms.",
    technique="Coq proof (structural induction on trees, store invariant over histories) + model/implementation/spec correspondence",
    design="6/C01"),
 "C11": dict(
    text="Coq theorems that every state reachable by any history of statements (successful or failing) and flushes "
         "satisfies the shape invariant for every tree in cache and on disk: uniform depth, keys inside separator "
         "bounds, strictly ascending keys, nodes below capacity, stored sibling fields equal to in-order neighbours, no "
         "page reachable twice within or across trees; corollaries: the left-to-right chain equals the leaves in tree "
         "order and the right-to-left chain its reverse, every live cell is found by point lookup. Tied to the code by "
         "page dumps after every operation compared field by field with the model, and independently judged by a "
         "page-graph oracle (Spec/DumpCheck.v) that follows stored child/sibling offsets.",
    note="Trusted: Coq kernel + vm_compute; the inductive-tree model (pages are never shared or freed, so the page graph "
         "of a reachable file is a forest - the correspondence would show a disagreement otherwise); crash recovery is "
         "covered under C02. No axioms.",
    technique="Coq proof (invariant by induction over histories, structural induction on trees) + page-dump correspondence",
    design="6/C11"),
 "C13": dict(
    text="Coq theorem over a transition system of a session thread and the flusher thread on an RWMutex: for any "
         "statement programs accepted by a verified bracket checker and any schedule, no page/header write happens "
         "inside a statement and cache/page state is never touched by both sides at once; the programs are regenerated "
         "from the Go source on every run (tools/gen_protocol) and re-checked; the translator's classification of callees by "
         "name is itself re-checked against a static census of every file-handle use and the call graph of package "
         "storage (Gen/IoSites.v, go/types; C13_classification_sound: statement bodies reach no write of the data file "
         "or the log). Dynamic part: -race build against the "
         "real 100 ms ticker with statements parked at six points while the data file is watched.",
    note="PARTIAL: the theorem is about the lock protocol extracted from the source; Go memory model, runtime and the "
         "bodies of classified calls are not modelled beyond the static reachability of write sites (covered by the race "
         "detector run and by comparing the data file around every statement body, also with tiny page caches). Races between USE's "
         "fileStore.open and the ticker's first flush are outside the property's statement kinds and filtered by call "
         "site (documented in tools/props/c13.py). No axioms.",
    technique="Coq proof (invariant over reachable states of the lock protocol regenerated from source) + race-detector run",
    design="6/C13"),
})

CHECKS.update({
 "C12": dict(
    text="Coq theorems about the byte-level model of encodeLeaf/encodeInternal/decode and the header codec: every admissible "
         "node (0..max cells, values 0..400 bytes, any flags, offsets a permutation) encodes to exactly pageSize bytes and "
         "decodes to the same node; nodes whose slot array is longer than their live cells (left half of a split) decode to "
         "the same logical content; the first-byte dispatch of fetch; round trip through a file image. Constants come from "
         "Gen/Params.v, regenerated from page.go on every run, with the arithmetic facts re-proved on the current values. "
         "Correspondence: Go encode() bytes = model bytes, Go decode = model decode, update -> cold fetch, on exhaustive "
         "small shapes, maximum occupancy and random pages.",
    note="Trusted: Coq kernel + vm_compute; translator tools/gen_params (go/types constant evaluation); model of "
         "encoding/binary and bytes.Buffer semantics (Model/Bytes.v, CodecBase.v). No axioms.",
    technique="Coq proof (round-trip theorems over byte lists) + byte-exact codec correspondence",
    design="6/C12"),
 "C19": dict(
    text="Coq theorem over the model of doBatchInsert/csvToSql: for every reader event stream, schema and mapping the table "
         "afterwards is the table before plus exactly the converted accepted records in input order, one ok/error event per "
         "record, rejected records leave no trace. encoding/csv is an oracle whose deliveries (records, parse errors) are "
         "taken from a second real reader; Atoi/ParseInt are modelled and cross-checked. Correspondence against a real "
         "relation service: event sequence and SELECT * afterwards.",
    note="Trusted: Coq kernel + vm_compute; encoding/csv as oracle; the storage behind EvaluateInsert abstracted to a row list "
         "with the validation rules (type, int32 range, 400-byte size) restated in Model/Csv.v; hypothesis no_panic "
         "(len(srcCols) <= len(colTypes)). No axioms.",
    technique="Coq proof (induction over the record stream) + correspondence with the real importer",
    design="6/C19"),
 "C20": dict(
    text="Coq theorems over the model of the console line buffer (bytesToKey, readLine, handleKey for printable keys / Enter / "
         "bracketed paste, splitStatements): for every list of well-formed statements (literals may contain ';', the other "
         "quote kind, spaces) and every placement of line breaks and typed/pasted delivery, the submitted statements are "
         "exactly the normalised statements, once each and in order, literals intact; an incomplete line never submits. "
         "Correspondence: Terminal.ReadLine over generated byte streams (all single break positions of short scripts, "
         "multi-break, pasted, chunked; plus out-of-scope inputs model-vs-Go only).",
    note="Trusted: Coq kernel + vm_compute; maxLineLength carried as hypothesis `fits`; editing keys outside the quantifier; "
         "runTerminal (needs a tty) modelled by hand, not driven. No axioms.",
    technique="Coq proof (state-machine invariant over key lists) + correspondence with Terminal.ReadLine",
    design="6/C20"),
})

CHECKS.update({
 "C16": dict(
    text="Coq theorem over the model of the page store (fetch / append / flushPages on top of the LRU of C15, pages changed "
         "through the node objects callers hold): for every capacity, operation list and flush visiting order, a run that "
         "respects the discipline (nothing refused, every change through the currently cached object, new pages marked "
         "dirty before eviction) reads every page exactly as an unbounded cache would; evicted pages are clean and equal "
         "to their file image. Correspondence: (i) the page-store model against the real fileStore on random traces with "
         "caches of 3-8 pages, (ii) whole statement histories executed with caches of 6..64 pages vs the default 10000 vs "
         "the cache-less storage model (outcomes, SELECT *, page dumps identical).",
    note="PARTIAL: that every B+ tree operation stays within the discipline for capacities above a few times the tree "
         "height is validated by (ii), not proved. Runs whose per-statement dirty set exceeds the capacity (statement "
         "refused with ErrLRUCacheFull) are outside the property's quantifier and counted separately. No axioms.",
    technique="Coq proof (invariant over page-store operation lists) + small-cache vs default-cache differential runs",
    design="6/C16"),
})

CHECKS["C01"]["text"] = (
    "Coq theorems: for every history of statements on a fresh database (any number of tables, rows, leaf/internal/root "
    "splits, root moves of user tables and of both catalog trees), SELECT * of every user table computed by the model "
    "through its own catalog trees, tuple codec and sibling-chain scans equals the plain table specification of the "
    "acknowledged statements, with strictly increasing row ids (C01_refines: every history, failing statements of any kind "
    "included - they are atomic since /repo a9c009f/39dd145/144ab90, proved in Proofs/FailsEarly.v). Tree-level core: insertion above the maximum appends exactly one cell through any splits, scans return the "
    "live cells in order, no page shared. Tied to the code on every run: seeded histories on the real engine; after every "
    "statement every table, sys_schema and every page (offset, LSN, dirty flag, sibling fields, cells) compared with the "
    "model, tables judged by Spec/TableSpec.v.")
CHECKS["C01"]["note"] = (
    "Hypotheses of the refinement theorem: literals within int64 / 2^32 bytes, file below 2^63 bytes (both limits of the "
    "unbounded model, not of the code). Two hypotheses the proof once needed turned out to be defects and were repaired in "
    "/repo: distinct column names (e322443) and early failures (the former findings F11a-c). Trusted: Coq kernel + vm_compute; hand-written model (Model/Tree.v, Store.v, "
    "Engine.v, Tuple.v) tied to the Go code by correspondence; SQL text parsed by the real parser while the model receives "
    "the intended statement tree (C10). Row ids are unbounded N in the model, uint32 in Go. No axioms.")
CHECKS.update({
 "C05": dict(
    text="Coq theorems over the model of EvaluateSelect for one table: for all tables and well-typed queries the model's "
         "result satisfies the declarative specification (filter by WHERE with AND under OR, projection with aliases and "
         "expressions, lexicographic ORDER BY with ASC/DESC per key, OFFSET then LIMIT; insertion order without ORDER BY); "
         "an executable result checker is proved sound and complete w.r.t. that specification, so Go's unstable sort.Slice "
         "is judged without ever accepting a wrong answer. Correspondence: grammar-generated SQL text on a real database, "
         "Go result vs model and vs checker.",
    note="Trusted: Coq kernel + vm_compute; model Model/Select.v (every type assertion is a Panic branch); the statement tree "
         "is what Go's parser produced (C10) and tables equal the inserted rows (C01); sort.Slice returns a permutation. No axioms.",
    technique="Coq proof (model meets declarative spec; verified checker) + SQL-text correspondence", design="6/C05"),
 "C06": dict(
    text="Coq theorems: for any join tree of INNER/LEFT/RIGHT joins the nested-loop model returns, as a multiset, exactly the "
         "matching pairs plus NULL-padded unmatched outer rows (JoinSpec); naming theorems (alias vs table name, self-join under "
         "two aliases, ambiguous unqualified name rejected); verified checker. Correspondence on generated join queries "
         "(duplicate and missing keys, chains, self-joins).",
    note="Trusted as C05. Outside the property text and recorded as observation: a table joined to itself WITHOUT aliases "
         "resolves qualified names to the left copy. No axioms.",
    technique="Coq proof (induction on the join tree) + SQL-text correspondence", design="6/C06"),
 "C07": dict(
    text="Coq theorems over the aggregation model: one output row per class of equal grouping-value tuples (group key proved "
         "injective), COUNT(*) and COUNT(col) exact, empty input gives one all-zero row, permutation invariance for queries "
         "without AVG, AVG correct for groups of at most two rows. The full statement is refuted (C07_avg_refuted: AVG is a "
         "running rounded average, [1,0,0] gives 1) - recorded finding F8b, printed as KNOWN-FINDING; everything else is "
         "proved (C07_model_meets_spec_partial) and checked by a verified checker on Go's results.",
    note="PARTIAL by the recorded finding (AVG over 3+ rows). float64 division + math.Round assumed to agree with exact "
         "rounding below 2^52. Four further defects found while proving were repaired in /repo (fix: commits). No axioms.",
    technique="Coq proof (spec refinement + refutation witness) + SQL-text correspondence", design="6/C07"),
 "C08": dict(
    text="Coq theorems: Tuple.Decode(Tuple.Encode(row)) = row for every schema with distinct column names and every row of "
         "values that fit (INT 32-bit, BIGINT 64-bit, any byte strings incl. empty, booleans, NULL); a wrong type or an INT "
         "outside 32 bits makes Encode fail with the error Validate decides; encoded length = the specification's row size, "
         "rows over 400 bytes refused by insert and update with nothing changed; flush preserves every table. Correspondence: "
         "boundary values supplied as direct statement values and as SQL text, read back at once / after flush with a "
         "6-page cache / after restart, strict oracle (a refusal only where the property demands one); Tuple.Encode bytes "
         "compared byte for byte.",
    note="The restart part rests on C02's recovery theorem and the page round trip on C12. Negative numbers and quotes are not "
         "expressible as SQL literals (direct values only). No axioms.",
    technique="Coq proof (codec round trip, refusal, size law) + boundary-value correspondence", design="6/C08"),
 "C14": dict(
    text="Coq theorems: in every reachable state a statement that returns an error leaves the store exactly as it was - pages, "
         "catalog, every table, even the row-id and LSN counters (C14_atomic, from Proofs/FailsEarly.v: every row / matching "
         "row / catalog row is checked before the first change, and under the refinement invariant nothing can fail after the "
         "checks passed); nothing of a failed statement reaches the log (C14_failed_gone_after_crash). The three former "
         "witnesses of the findings F11a-c are kept as examples of the repaired behaviour. Correspondence: every error kind with the invalid row at every position k, tables before / after / after "
         "restart.",
    note="F11a-c were recorded as findings first and repaired later (/repo a9c009f, 39dd145, 144ab90: pre-validation pass). "
         "Hypotheses: literals are Go values, file below 2^63 bytes. No axioms.",
    technique="Coq proof (no late failure under the refinement invariant, atomicity) + failing-statement correspondence",
    design="6/C14"),
})

CHECKS.update({
 "C09": dict(
    text="Coq theorems over the model of the token wrapper and of every parser production: for every raw token list the "
         "pipeline yields a statement or an error value - never a panic (the single assertion left, requireInt's, is proved "
         "unreachable) - and the fuel used for loops is proved sufficient (termination). Correspondence: 913k token "
         "sequences (full vocabulary to length 3, reduced vocabularies to length 5), every token/byte truncation of "
         "generated statements, malformed byte streams (unterminated quotes, huge numerals, invalid UTF-8, 100 kB inputs, "
         "5000-long AND/OR chains) through the real scanner + parser under recover() and a watchdog, cross-checked with "
         "engine.parseSQL.",
    note="PARTIAL: the forked text/scanner (sql/go_scanner.go) is a raw-token oracle - its own termination and panic-freedom "
         "are validated by the malformed-input stream, not proved. No axioms.",
    technique="Coq proof (totality and fuel sufficiency per production) + exhaustive token-level and text-level correspondence",
    design="6/C09"),
 "C10": dict(
    text="Coq theorems: for every well-formed statement of the whole grammar and every rendering (optional INNER / AS / ASC, "
         "GROUP BY with commas or blanks, LIMIT/OFFSET order, column lists, numeral spellings) parsing the token list yields "
         "exactly that statement (C10_roundtrip); no element of a comma separated list is silently lost (C10_lists_complete, "
         "C10_no_silent_change); keyword recognition is case-insensitive (from the generated keyword table, proved "
         "upper-case and pairwise distinct); AND binds tighter than OR. Correspondence: generated statement trees rendered "
         "to text with random case / whitespace / optional keywords, Go's tree compared with the generated tree and with the "
         "model's parse; all boolean shapes up to 3 leaves.",
    note="Trusted: Coq kernel + vm_compute; the raw scanner as oracle; keyword table regenerated from scanner.go. No axioms.",
    technique="Coq proof (round trip per production with follow-set side conditions) + text-level correspondence",
    design="6/C10"),
})

CHECKS.update({
 "C02": dict(
    text="Coq theorems over the model of the log, flush and InitStorage: do = redo (replaying a successful statement's records "
         "on an equivalent store reproduces its effect, through leaf/internal splits and root moves), records older than the "
         "data file are inert (skipped by the page-LSN test or tolerated as key-exists), hence for every history of statements, "
         "flushes at any subset of boundaries, crashes, crashes inside log appends and in-place torn flushes, recovery restores "
         "a store with the same pages and the same tables (C02_recovery_restores), is idempotent, never fails, keeps every key "
         "<= lastKey and every page LSN < nextLSN, and later statements behave as on the uncrashed database. Correspondence: "
         "histories under three flush policies with crashes at statement boundaries, double recoveries; after every crash and "
         "every later statement all tables and all pages compared with the model, tables judged by the specification.",
    note="For histories of statements, flushes and crash-restarts the theorems hold with no hypothesis besides literals being Go "
         "values and the file staying below 2^63 bytes (C02_*_noH1H2): H1 (failed statements change nothing) is derived "
         "(Proofs/FailsEarly.v, HistNoH1.v) since the former findings F11a-c were repaired, H2 (root moves rewrite the row redo "
         "rewrites) is derived from the refinement invariant (Proofs/MovesFromRep.v). Histories with crashes inside a log "
         "append or a flush use the versions that still assume H2. Defects found by the proof attempts and repaired in /repo: "
         "c7d1b36, fd49896. No axioms.",
    technique="Coq proof (do=redo, inert old records, invariant over event histories) + crash-at-boundary correspondence",
    design="6/C02"),
 "C03": dict(
    text="Coq theorems: a log cut at any write call (at the last write or at the last fsync) reads back as a complete-record "
         "prefix (byte-level, from the WAL codec proofs); after a crash inside a statement's log append recovery yields the "
         "state after the first i row operations of the statement, i monotone in the cut position, with the catalog already "
         "repaired when the cut separates a root-splitting insert from its root-move record; later statements continue "
         "correctly. Correspondence: every write/sync call of every DML statement of seeded histories is a crash point under "
         "both cut rules (~1250 crash states per quick run): recover, read, run further statements, crash and recover again.",
    note="Hypothesis H2 as in C02 (H1 is derived now). In the half-pair cut the recovered store differs from the i-row store only in the LSN "
         "stamped on one sys_pages leaf (stated as seqL). Assumes a write call on the O_APPEND log is atomic and fsync durable. "
         "No axioms.",
    technique="Coq proof (reader prefix + prefix-state theorem) + crash-inside-log-append enumeration",
    design="6/C03"),
 "C04": dict(
    text="Coq theorems: for every reachable state and every subset W of its dirty pages, if cache and file differ only inside "
         "leaves (torn_disk y W = Some d), recovery from the torn image restores the same pages and tables, keeps keys <= "
         "lastKey, and a second crash inside recovery's own flush is again a single torn flush (C04_partial, "
         "C04_ids_after_torn_flush, C04_second_crash). The unrestricted statement is not provable: a flush with a page "
         "allocated or an internal node dirtied since the last completed flush is outside the model (C04_refuted exhibits such "
         "a reachable state) and is the recorded finding F15. Correspondence: at every flush point the driver builds every torn "
         "image (file before + any subset of changed pages, header unwritten), recovers it in a child process, reads back and "
         "runs further INSERTs.",
    note="PARTIAL by the recorded finding F15 (structural torn flushes: 207 of 370 such images do not recover in a quick run, "
         "printed as KNOWN-FINDING; in-scope images must all recover). One defect found by the proof attempt (stale lastKey "
         "after an in-place torn flush) was repaired (fd49896). Assumes a 4096-byte WriteAt is atomic. No axioms.",
    technique="Coq proof (per-page redo argument for in-place dirty sets) + torn-image enumeration",
    design="6/C04"),
 "C17": dict(
    text="Coq theorems over the session model (CREATE DATABASE / USE / SHOW DATABASES / statements / timer ticks / clean and "
         "unclean restarts): every database's logical store represents exactly the specification of the statements issued "
         "while it was selected (C17_isolation, by induction over event lists, building on the C01 refinement invariant and "
         "the C02 recovery theorem); failed USE / CREATE DATABASE change nothing; SHOW lists exactly the created names; a "
         "statement, tick or USE touches only the selected (and newly selected) database. Correspondence: one engine.Session "
         "with the real 100 ms timer over 2-3 databases, pauses and restarts, contents read after every step.",
    note="Hypotheses: literals are Go values, file below 2^63 bytes, H2 (C17_isolation_all_histories; H1 is derived now). "
         "Database names that are paths or too long are refused (model: valid_dbname; /repo a710589, 71be150) and are part of "
         "the generated inputs. No axioms.",
    technique="Coq proof (session invariant over event lists) + multi-database session correspondence",
    design="6/C17"),
 "C18": dict(
    text="Coq theorems: the SELECT executor model never reaches a Panic branch for any statement the parser can produce over any "
         "well-formed tables, NULLs and ill-typed comparisons included (C18_select_no_panic; every Go type assertion and index "
         "is a Panic branch of the model); in every reachable session state DELETE, SELECT, CREATE DATABASE, USE and SHOW never "
         "panic, CREATE TABLE / INSERT / UPDATE never panic under the size/literal side conditions (C18_statement_no_panic_"
         "partial); with no database selected every statement returns the NoDB error and after a failed USE the session is "
         "unchanged. Correspondence: type-confused statements from the grammar plus a list of awkward texts in the session "
         "states {no USE, failed USE, empty database, populated with NULLs} under recover() and a watchdog; SELECT outcomes "
         "against the executor model.",
    note="PARTIAL: the unconditional statement for CREATE TABLE / INSERT / UPDATE stays a Definition (the proof carries the "
         "refinement invariant, which needs distinct column names and file size bounds). Three panics found earlier were "
         "repaired (avg on NULL, ORDER BY on NULL, DML on the catalog). No axioms.",
    technique="Coq proof (no Panic branch reachable) + type-confused statement correspondence in all session states",
    design="6/C18"),
})

NOT_YET = {
}

def main():
    props = [json.loads(l) for l in open(os.path.join(V, "properties.jsonl"))]
    checks = []
    na = []
    for p in props:
        pid = p["id"]
        if pid in CHECKS:
            c = CHECKS[pid]
            checks.append({
                "property_id": pid,
                "quick_cmd": "python3 tools/check.py %s --tier quick" % pid,
                "thorough_cmd": "python3 tools/check.py %s --tier thorough" % pid,
                "evidence_file": "/verif/evidence/%s.json" % pid,
                "replay_cmd_template": "python3 tools/check.py %s --replay {path}" % pid,
                "engine": "coq-proof+correspondence",
                "level_claimed": {"category": "proof", "text": c["text"], "design_ref": "DESIGN.md section " + c["design"]},
                "level_note": c["note"],
                "technique": c["technique"],
            })
        else:
            na.append({"property_id": pid, "reason": NOT_YET.get(pid, "check not built yet in this session (work in progress; proof in Coq is applicable, see DESIGN.md section 6)")})
    m = {
        "version": 1,
        "setup_cmd": "cd /verif && python3 tools/setup.py",
        "hooks": {
            "guard": "verif",
            "enable": "go test -c -overlay /verif/build/overlay.json -tags verif -vet=off (harness files under /verif/harness are overlaid onto /repo packages; no source edits)",
            "baseline_off_cmd": BASE_OFF,
            "source_commits": [],
            "add_only": True,
        },
        "engines": [{
            "name": "coq-proof+correspondence",
            "path": "/verif/coq, /verif/tools/check.py, /verif/harness",
            "serves_properties": sorted(CHECKS),
            "kind_free_text": "Coq 8.16.1 theorems about executable Gallina models; models tied to the Go code by differential runs evaluated with vm_compute; constants regenerated from source",
        }],
        "checks": checks,
        "not_applicable": na,
        "notes": "See DESIGN.md (sections 1-10: plan; 11: what was built, defects repaired, seeded changes, final status per "
                 "property, trusted base). 35 'fix:' commits in /repo (each a genuine defect shown against the real code; the unedited "
                 "suite passes), listed in known_findings.json 'fixed'; two findings recorded and not repaired (C04 structural torn "
                 "flush, C07 running rounded AVG pinned by the existing tests). 88 seeded changes under seeded/ (eight rounds, written "
                 "by sub-agents that saw only the property text), each confirmed in a scratch worktree and detected by the quick check "
                 "of its property; tools/reseed.py re-runs round one against the current HEAD. Thorough tier: larger scopes, coqchk on "
                 "the property's files, Go statement coverage of the correspondence runs.",
    }
    json.dump(m, open(os.path.join(V, "MANIFEST.json"), "w"), indent=1)

main()
