#!/usr/bin/env python3
"""Writes MANIFEST.json from the table below (kept as code so it is always valid)."""
import json, os
V = os.path.dirname(os.path.dirname(os.path.abspath(__file__)))

BASE_OFF = "cd /repo && go test -vet=off -count=1 ./..."

CHECKS = {
 "C15": dict(
    text="Machine-checked proof (Coq) over the executable model of lru.go that, for every operation list and "
         "capacity, the cache never exceeds capacity, lookups return the latest stored value until evicted, the "
         "victim is the least recently used clean entry, dirty entries are never evicted and insertion is refused "
         "iff the cache is full of dirty entries; the model is tied to storage.LRUCache by step-by-step "
         "differential runs (exhaustive depth-3 small scope + random long runs) evaluated inside Coq, and the Go "
         "traces are independently judged by a property oracle (Spec/LruSpec.v).",
    note="Trusted: Coq kernel + vm_compute; hand-written model Model/Lru.v (tie = correspondence, a sample); Go "
         "overlay driver; container/list and map semantics. No axioms.",
    technique="Coq proof (invariant by induction over operation lists) + model/implementation correspondence",
    design="6/C15"),
}

CHECKS.update({
 "C01": dict(
    text="Coq theorems about the executable model of btree.go/page.go/relation.go (inductive tree with page labels): "
         "for trees of any height an insertion above the maximum appends exactly one cell to the in-order cell list "
         "(tombstones and all other cells untouched) through leaf/internal/root splits and allocates only fresh pages; "
         "scans by stored sibling offsets return exactly the live cells in insertion order in every reachable state; "
         "UPDATE/DELETE rewrite exactly the addressed cell; row ids strictly increasing and at most lastKey, no page "
         "shared between tables. The end-to-end statement (C01_full_statement: SELECT * through the catalog equals the "
         "plain table specification) is stated but not yet proved; it is checked on every run by running seeded "
         "histories on the real engine and comparing, after every statement, every table, sys_schema and every page "
         "(offset, LSN, dirty flag, sibling fields, cells) with the model, and the tables with Spec/TableSpec.v.",
    note="PARTIAL proof (see Properties/C01.v header). Trusted: Coq kernel + vm_compute; hand-written model "
         "(Model/Tree.v, Store.v, Engine.v, Tuple.v) tied to the Go code by correspondence only; SQL text parsed by the "
         "real parser while the model receives the intended statement tree (C10). No axioms.",
    technique="Coq proof (structural induction on trees, store invariant over histories) + model/implementation/spec correspondence",
    design="6/C01"),
 "C11": dict(
    text="Coq theorems that every state reachable by any history of statements (successful or failing) and flushes "
         "satisfies the shape invariant for every tree in cache and on disk: uniform depth, keys inside separator "
         "bounds, strictly ascending keys, nodes below capacity, stored sibling fields equal to in-order neighbours, no "
         "page reachable twice within or across trees; corollaries: the left-to-right chain equals the leaves in tree "
         "order and the right-to-left chain its reverse, every live cell is found by point lookup. Tied to the code by "
         "page dumps after every operation compared field by field with the model, and independently judged by a "
         "page-graph oracle (Spec/DumpCheck.v) that follows stored child/sibling offsets.",
    note="Trusted: Coq kernel + vm_compute; the inductive-tree model (pages are never shared or freed, so the page graph "
         "of a reachable file is a forest - the correspondence would show a disagreement otherwise); crash recovery is "
         "covered under C02. No axioms.",
    technique="Coq proof (invariant by induction over histories, structural induction on trees) + page-dump correspondence",
    design="6/C11"),
 "C13": dict(
    text="Coq theorem over a transition system of a session thread and the flusher thread on an RWMutex: for any "
         "statement programs accepted by a verified bracket checker and any schedule, no page/header write happens "
         "inside a statement and cache/page state is never touched by both sides at once; the programs are regenerated "
         "from the Go source on every run (tools/gen_protocol) and re-checked. Dynamic part: -race build against the "
         "real 100 ms ticker with statements parked at six points while the data file is watched.",
    note="PARTIAL: the theorem is about the lock protocol extracted from the source; Go memory model, runtime and the "
         "bodies of classified calls are not modelled (covered by the race detector run). Races between USE's "
         "fileStore.open and the ticker's first flush are outside the property's statement kinds and filtered by call "
         "site (documented in tools/props/c13.py). No axioms.",
    technique="Coq proof (invariant over reachable states of the lock protocol regenerated from source) + race-detector run",
    design="6/C13"),
})

CHECKS.update({
 "C12": dict(
    text="Coq theorems about the byte-level model of encodeLeaf/encodeInternal/decode and the header codec: every admissible "
         "node (0..max cells, values 0..400 bytes, any flags, offsets a permutation) encodes to exactly pageSize bytes and "
         "decodes to the same node; nodes whose slot array is longer than their live cells (left half of a split) decode to "
         "the same logical content; the first-byte dispatch of fetch; round trip through a file image. Constants come from "
         "Gen/Params.v, regenerated from page.go on every run, with the arithmetic facts re-proved on the current values. "
         "Correspondence: Go encode() bytes = model bytes, Go decode = model decode, update -> cold fetch, on exhaustive "
         "small shapes, maximum occupancy and random pages.",
    note="Trusted: Coq kernel + vm_compute; translator tools/gen_params (go/types constant evaluation); model of "
         "encoding/binary and bytes.Buffer semantics (Model/Bytes.v, CodecBase.v). No axioms.",
    technique="Coq proof (round-trip theorems over byte lists) + byte-exact codec correspondence",
    design="6/C12"),
 "C19": dict(
    text="Coq theorem over the model of doBatchInsert/csvToSql: for every reader event stream, schema and mapping the table "
         "afterwards is the table before plus exactly the converted accepted records in input order, one ok/error event per "
         "record, rejected records leave no trace. encoding/csv is an oracle whose deliveries (records, parse errors) are "
         "taken from a second real reader; Atoi/ParseInt are modelled and cross-checked. Correspondence against a real "
         "relation service: event sequence and SELECT * afterwards.",
    note="Trusted: Coq kernel + vm_compute; encoding/csv as oracle; the storage behind EvaluateInsert abstracted to a row list "
         "with the validation rules (type, int32 range, 400-byte size) restated in Model/Csv.v; hypothesis no_panic "
         "(len(srcCols) <= len(colTypes)). No axioms.",
    technique="Coq proof (induction over the record stream) + correspondence with the real importer",
    design="6/C19"),
 "C20": dict(
    text="Coq theorems over the model of the console line buffer (bytesToKey, readLine, handleKey for printable keys / Enter / "
         "bracketed paste, splitStatements): for every list of well-formed statements (literals may contain ';', the other "
         "quote kind, spaces) and every placement of line breaks and typed/pasted delivery, the submitted statements are "
         "exactly the normalised statements, once each and in order, literals intact; an incomplete line never submits. "
         "Correspondence: Terminal.ReadLine over generated byte streams (all single break positions of short scripts, "
         "multi-break, pasted, chunked; plus out-of-scope inputs model-vs-Go only).",
    note="Trusted: Coq kernel + vm_compute; maxLineLength carried as hypothesis `fits`; editing keys outside the quantifier; "
         "runTerminal (needs a tty) modelled by hand, not driven. No axioms.",
    technique="Coq proof (state-machine invariant over key lists) + correspondence with Terminal.ReadLine",
    design="6/C20"),
})

CHECKS.update({
 "C16": dict(
    text="Coq theorem over the model of the page store (fetch / append / flushPages on top of the LRU of C15, pages changed "
         "through the node objects callers hold): for every capacity, operation list and flush visiting order, a run that "
         "respects the discipline (nothing refused, every change through the currently cached object, new pages marked "
         "dirty before eviction) reads every page exactly as an unbounded cache would; evicted pages are clean and equal "
         "to their file image. Correspondence: (i) the page-store model against the real fileStore on random traces with "
         "caches of 3-8 pages, (ii) whole statement histories executed with caches of 6..64 pages vs the default 10000 vs "
         "the cache-less storage model (outcomes, SELECT *, page dumps identical).",
    note="PARTIAL: that every B+ tree operation stays within the discipline for capacities above a few times the tree "
         "height is validated by (ii), not proved. Runs whose per-statement dirty set exceeds the capacity (statement "
         "refused with ErrLRUCacheFull) are outside the property's quantifier and counted separately. No axioms.",
    technique="Coq proof (invariant over page-store operation lists) + small-cache vs default-cache differential runs",
    design="6/C16"),
})

NOT_YET = {
}

def main():
    props = [json.loads(l) for l in open(os.path.join(V, "properties.jsonl"))]
    checks = []
    na = []
    for p in props:
        pid = p["id"]
        if pid in CHECKS:
            c = CHECKS[pid]
            checks.append({
                "property_id": pid,
                "quick_cmd": "python3 tools/check.py %s --tier quick" % pid,
                "thorough_cmd": "python3 tools/check.py %s --tier thorough" % pid,
                "evidence_file": "/verif/evidence/%s.json" % pid,
                "replay_cmd_template": "python3 tools/check.py %s --replay {path}" % pid,
                "engine": "coq-proof+correspondence",
                "level_claimed": {"category": "proof", "text": c["text"], "design_ref": "DESIGN.md section " + c["design"]},
                "level_note": c["note"],
                "technique": c["technique"],
            })
        else:
            na.append({"property_id": pid, "reason": NOT_YET.get(pid, "check not built yet in this session (work in progress; proof in Coq is applicable, see DESIGN.md section 6)")})
    m = {
        "version": 1,
        "setup_cmd": "cd /verif && python3 tools/setup.py",
        "hooks": {
            "guard": "verif",
            "enable": "go test -c -overlay /verif/build/overlay.json -tags verif -vet=off (harness files under /verif/harness are overlaid onto /repo packages; no source edits)",
            "baseline_off_cmd": BASE_OFF,
            "source_commits": [],
            "add_only": True,
        },
        "engines": [{
            "name": "coq-proof+correspondence",
            "path": "/verif/coq, /verif/tools/check.py, /verif/harness",
            "serves_properties": sorted(CHECKS),
            "kind_free_text": "Coq 8.16.1 theorems about executable Gallina models; models tied to the Go code by differential runs evaluated with vm_compute; constants regenerated from source",
        }],
        "checks": checks,
        "not_applicable": na,
        "notes": "See DESIGN.md. Known findings in known_findings.json.",
    }
    json.dump(m, open(os.path.join(V, "MANIFEST.json"), "w"), indent=1)

main()
