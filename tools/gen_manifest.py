#!/usr/bin/env python3
"""Writes MANIFEST.json from the table below (kept as code so it is always valid)."""
import json, os
V = os.path.dirname(os.path.dirname(os.path.abspath(__file__)))

BASE_OFF = "cd /repo && go test -vet=off -count=1 ./..."

CHECKS = {
 "C15": dict(
    text="Machine-checked proof (Coq) over the executable model of lru.go that, for every operation list and "
         "capacity, the cache never exceeds capacity, lookups return the latest stored value until evicted, the "
         "victim is the least recently used clean entry, dirty entries are never evicted and insertion is refused "
         "iff the cache is full of dirty entries; the model is tied to storage.LRUCache by step-by-step "
         "differential runs (exhaustive depth-3 small scope + random long runs) evaluated inside Coq, and the Go "
         "traces are independently judged by a property oracle (Spec/LruSpec.v).",
    note="Trusted: Coq kernel + vm_compute; hand-written model Model/Lru.v (tie = correspondence, a sample); Go "
         "overlay driver; container/list and map semantics. No axioms.",
    technique="Coq proof (invariant by induction over operation lists) + model/implementation correspondence",
    design="6/C15"),
}

NOT_YET = {
}

def main():
    props = [json.loads(l) for l in open(os.path.join(V, "properties.jsonl"))]
    checks = []
    na = []
    for p in props:
        pid = p["id"]
        if pid in CHECKS:
            c = CHECKS[pid]
            checks.append({
                "property_id": pid,
                "quick_cmd": "python3 tools/check.py %s --tier quick" % pid,
                "thorough_cmd": "python3 tools/check.py %s --tier thorough" % pid,
                "evidence_file": "/verif/evidence/%s.json" % pid,
                "replay_cmd_template": "python3 tools/check.py %s --replay {path}" % pid,
                "engine": "coq-proof+correspondence",
                "level_claimed": {"category": "proof", "text": c["text"], "design_ref": "DESIGN.md section " + c["design"]},
                "level_note": c["note"],
                "technique": c["technique"],
            })
        else:
            na.append({"property_id": pid, "reason": NOT_YET.get(pid, "check not built yet in this session (work in progress; proof in Coq is applicable, see DESIGN.md section 6)")})
    m = {
        "version": 1,
        "setup_cmd": "cd /verif && python3 tools/setup.py",
        "hooks": {
            "guard": "verif",
            "enable": "go test -c -overlay /verif/build/overlay.json -tags verif -vet=off (harness files under /verif/harness are overlaid onto /repo packages; no source edits)",
            "baseline_off_cmd": BASE_OFF,
            "source_commits": [],
            "add_only": True,
        },
        "engines": [{
            "name": "coq-proof+correspondence",
            "path": "/verif/coq, /verif/tools/check.py, /verif/harness",
            "serves_properties": sorted(CHECKS),
            "kind_free_text": "Coq 8.16.1 theorems about executable Gallina models; models tied to the Go code by differential runs evaluated with vm_compute; constants regenerated from source",
        }],
        "checks": checks,
        "not_applicable": na,
        "notes": "See DESIGN.md. Known findings in known_findings.json.",
    }
    json.dump(m, open(os.path.join(V, "MANIFEST.json"), "w"), indent=1)

main()
