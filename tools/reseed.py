#!/usr/bin/env python3
"""tools/reseed.py [seed-id ...]: re-run the seeded changes under /verif/seeded against the current
/repo HEAD and the current checks: for each seed a scratch worktree of /repo HEAD is made under /tmp,
patch.diff is applied (3-way), the quick check of the seed's property runs with VERIF_REPO pointing
at the worktree, the verdict is merged into meta.json (checks_run_at_head), the worktree is removed."""
import json, os, subprocess, sys, time, shutil
V = os.path.dirname(os.path.dirname(os.path.abspath(__file__)))
def sh(cmd, **kw):
    return subprocess.run(cmd, shell=True, stdout=subprocess.PIPE, stderr=subprocess.STDOUT, text=True, **kw)
seeds = sys.argv[1:] or sorted(os.listdir(os.path.join(V, "seeded")))
head = sh("git -C /repo rev-parse --short HEAD").stdout.strip()
for sid in seeds:
    d = os.path.join(V, "seeded", sid)
    meta = json.load(open(os.path.join(d, "meta.json")))
    pid = meta["property"]
    wt = "/tmp/reseed_" + pid
    sh("git -C /repo worktree remove --force %s" % wt)
    r = sh("git -C /repo worktree add -q %s HEAD" % wt)
    # a seed whose original patch no longer fits the repaired code is kept ported (same idea, current code)
    pf = os.path.join(d, "patch_at_head.diff")
    if not os.path.exists(pf):
        pf = os.path.join(d, "patch.diff")
    a = sh("git apply --3way %s" % pf, cwd=wt)
    res = {"repo_head": head, "patch_applies": a.returncode == 0, "patch_file": os.path.basename(pf)}
    if a.returncode != 0:
        res["apply_log"] = a.stdout[-500:]
    else:
        b = sh("GOFLAGS=-mod=mod GOPROXY=off GOSUMDB=off go build ./... && GOFLAGS=-mod=mod GOPROXY=off GOSUMDB=off go test -vet=off -count=1 ./... 2>&1 | tail -8", cwd=wt)
        res["suite_passes_with_change"] = b.returncode == 0 and "FAIL" not in b.stdout
        t0 = time.time()
        p = subprocess.run([sys.executable, os.path.join(V, "tools", "check.py"), pid, "--tier", "quick"], cwd=V,
                           env=dict(os.environ, VERIF_REPO=wt), stdout=subprocess.PIPE, stderr=subprocess.STDOUT, text=True)
        viol = [l for l in p.stdout.splitlines() if l.startswith("VIOLATION")]
        res.update({"check": pid, "exit": p.returncode, "violations": viol[:2], "wall_s": round(time.time() - t0, 1),
                    "detected": p.returncode == 1 and bool(viol),
                    "with_input": bool(viol) and not all("no-failing-input-found" in v for v in viol)})
    meta["checks_run_at_head"] = res
    json.dump(meta, open(os.path.join(d, "meta.json"), "w"), indent=1)
    print(sid, res.get("detected"), res.get("with_input"), res.get("wall_s"), "applies" if res["patch_applies"] else "PATCH DOES NOT APPLY",
          "" if res.get("suite_passes_with_change", True) else "SUITE FAILS", flush=True)
    sh("git -C /repo worktree remove --force %s" % wt)
# restore generated files for the real repository
sys.path.insert(0, os.path.join(V, "tools"))
import vlib
vlib.regenerate_gen()
subprocess.run(["go", "run", ".", "-repo", "/repo", "-out", os.path.join(V, "coq", "Gen")], cwd=os.path.join(V, "tools", "gen_protocol"),
               env=dict(os.environ, GOFLAGS="-mod=mod", GOPROXY="off", GOSUMDB="off"), stdout=subprocess.DEVNULL)
for x in os.listdir(os.path.join(V, "build")):
    if x.startswith("alt_"):
        shutil.rmtree(os.path.join(V, "build", x), ignore_errors=True)
