#!/usr/bin/env python3
"""tools/seedtest2.py <seed-id> <worktree-with-change> <seedout-dir> <PID> [<PID> ...]
Confirms a seeded change in its scratch worktree (builds; the existing suite passes with the change and the
demonstration file moved away; the demonstration fails with the change and passes without it), runs the
quick checks of the given properties against the worktree (VERIF_REPO), and files the seed under
/verif/seeded/<seed-id>/ (patch.diff, demonstration, meta.json with `confirmed` and `checks_run`)."""
import json, os, shutil, subprocess, sys, time
V = os.path.dirname(os.path.dirname(os.path.abspath(__file__)))
ENV = dict(os.environ, GOFLAGS="-mod=mod", GOPROXY="off", GOSUMDB="off", GOTOOLCHAIN="local")
def sh(cmd, cwd):
    p = subprocess.run(cmd, cwd=cwd, env=ENV, shell=True, stdout=subprocess.PIPE, stderr=subprocess.STDOUT, text=True, timeout=1800)
    return p.returncode, p.stdout
def main():
    sid, wt, outdir = sys.argv[1:4]
    pids = sys.argv[4:]
    meta = json.load(open(os.path.join(outdir, "meta.json")))
    demo = meta.get("demo") or ""
    if isinstance(demo, list):
        demo = " && ".join(demo)
    patch = os.path.join(outdir, "patch.diff")
    rc, out = sh("git status --porcelain", wt)
    untracked = [l[3:] for l in out.splitlines() if l.startswith("??")]
    conf = {}
    conf["go_build_with_change"] = sh("go build ./...", wt)[0] == 0
    hold = "/tmp/seed_hold_" + sid
    os.makedirs(hold, exist_ok=True)
    for u in untracked:
        if os.path.isfile(os.path.join(wt, u)):
            shutil.move(os.path.join(wt, u), os.path.join(hold, u.replace("/", "__")))
    conf["existing_suite_passes_with_change"] = sh("go test -vet=off -count=1 ./...", wt)[0] == 0
    for u in untracked:
        h = os.path.join(hold, u.replace("/", "__"))
        if os.path.exists(h):
            shutil.move(h, os.path.join(wt, u))
    shutil.rmtree(hold, ignore_errors=True)
    conf["demonstration_fails_with_change"] = sh(demo, wt)[0] != 0
    conf["patch_reverts"] = sh("git apply -R %s" % patch, wt)[0] == 0
    conf["demonstration_passes_without_change"] = sh(demo, wt)[0] == 0
    sh("git apply %s" % patch, wt)
    conf["base_commit"] = sh("git rev-parse --short HEAD", wt)[1].strip()
    conf["at"] = time.strftime("%Y-%m-%dT%H:%M:%SZ", time.gmtime())
    print(sid, "confirmed:", conf, flush=True)
    dest = os.path.join(V, "seeded", sid)
    os.makedirs(dest, exist_ok=True)
    for f in os.listdir(outdir):
        if os.path.isfile(os.path.join(outdir, f)):
            shutil.copy(os.path.join(outdir, f), os.path.join(dest, f))
    meta["confirmed"] = conf
    results = {}
    for pid in pids:
        t0 = time.time()
        p = subprocess.run([sys.executable, os.path.join(V, "tools", "check.py"), pid, "--tier", "quick"], cwd=V,
                           env=dict(os.environ, VERIF_REPO=wt), stdout=subprocess.PIPE, stderr=subprocess.STDOUT, text=True)
        viol = [l for l in p.stdout.splitlines() if l.startswith("VIOLATION")]
        results[pid] = {"exit": p.returncode, "violations": viol[:3], "wall_s": round(time.time() - t0, 1),
                        "detected": p.returncode == 1 and bool(viol),
                        "with_input": bool(viol) and not all("no-failing-input-found" in v for v in viol)}
        for l in viol[:1]:
            path = l.split("replay=")[1].split()[0]
            if os.path.exists(path):
                shutil.copy(path, os.path.join(dest, "replay_%s.json" % pid))
        print(sid, pid, "DETECTED" if results[pid]["detected"] else "missed", "input" if results[pid]["with_input"] else "", results[pid]["wall_s"], "s", flush=True)
    meta["checks_run"] = results
    json.dump(meta, open(os.path.join(dest, "meta.json"), "w"), indent=1)
    sys.path.insert(0, os.path.join(V, "tools"))
    import vlib
    vlib.regenerate_gen()
    if "C13" in pids:
        subprocess.run(["go", "run", ".", "-repo", "/repo", "-out", os.path.join(V, "coq", "Gen")], cwd=os.path.join(V, "tools", "gen_protocol"),
                       env=ENV, stdout=subprocess.DEVNULL)
main()
