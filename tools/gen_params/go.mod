module genparams

go 1.18
