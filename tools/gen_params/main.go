// gen_params: regenerates coq/Gen/Params.v from the Go sources of mk6i/mkdb.
//
// It parses and type-checks /repo/storage and /repo/sql (go/parser + go/types, standard
// library imported from source, no network) and writes the constants the Coq models and
// theorems depend on. All values come from go/types constant evaluation (go/constant), not from
// text matching. The output file is rewritten only when its content changes.
package main

import (
	"bytes"
	"flag"
	"fmt"
	"go/ast"
	"go/constant"
	"go/importer"
	"go/parser"
	"go/token"
	"go/types"
	"os"
	"path/filepath"
	"sort"
	"strings"
)

type pkg struct {
	fset  *token.FileSet
	files []*ast.File
	info  *types.Info
	tpkg  *types.Package
}

func load(dir, name string) (*pkg, error) {
	fset := token.NewFileSet()
	ents, err := os.ReadDir(dir)
	if err != nil {
		return nil, err
	}
	var files []*ast.File
	for _, e := range ents {
		n := e.Name()
		if e.IsDir() || !strings.HasSuffix(n, ".go") || strings.HasSuffix(n, "_test.go") {
			continue
		}
		f, err := parser.ParseFile(fset, filepath.Join(dir, n), nil, parser.SkipObjectResolution)
		if err != nil {
			return nil, err
		}
		if f.Name.Name != name {
			continue
		}
		files = append(files, f)
	}
	if len(files) == 0 {
		return nil, fmt.Errorf("no Go files of package %s in %s", name, dir)
	}
	info := &types.Info{
		Types: map[ast.Expr]types.TypeAndValue{},
		Defs:  map[*ast.Ident]types.Object{},
		Uses:  map[*ast.Ident]types.Object{},
	}
	var terrs []error
	conf := types.Config{
		Importer: importer.ForCompiler(fset, "source", nil),
		// third-party imports (none in these two packages) or unrelated type errors must not
		// stop constant evaluation; a constant that cannot be evaluated is reported below
		Error: func(err error) { terrs = append(terrs, err) },
	}
	tp, _ := conf.Check(name, fset, files, info)
	if tp == nil {
		return nil, fmt.Errorf("type-check of %s produced no package: %v", dir, terrs)
	}
	return &pkg{fset, files, info, tp}, nil
}

// constant value of a package-level constant, as an exact integer string
func (p *pkg) constInt(name string) (string, error) {
	obj := p.tpkg.Scope().Lookup(name)
	c, ok := obj.(*types.Const)
	if !ok {
		return "", fmt.Errorf("constant %s not found", name)
	}
	return intString(c.Val(), name)
}

func intString(v constant.Value, what string) (string, error) {
	if v == nil || v.Kind() == constant.Unknown {
		return "", fmt.Errorf("%s: value unknown", what)
	}
	iv := constant.ToInt(v)
	if iv.Kind() != constant.Int {
		return "", fmt.Errorf("%s: not an integer constant (%s)", what, v.String())
	}
	return iv.ExactString(), nil
}

func coqString(s string) (string, error) {
	for i := 0; i < len(s); i++ {
		if s[i] < 32 || s[i] > 126 {
			return "", fmt.Errorf("string %q has a non-printable byte", s)
		}
	}
	return `"` + strings.ReplaceAll(s, `"`, `""`) + `"`, nil
}

func zlit(s string) string {
	if strings.HasPrefix(s, "-") {
		return "(" + s + ")"
	}
	return s
}

// the argument of the single call `fn(<const>)` inside function `inFunc`
func (p *pkg) callArg(inFunc, fn string) (string, error) {
	var res []string
	for _, f := range p.files {
		for _, d := range f.Decls {
			fd, ok := d.(*ast.FuncDecl)
			if !ok || fd.Name.Name != inFunc || fd.Body == nil {
				continue
			}
			ast.Inspect(fd.Body, func(n ast.Node) bool {
				ce, ok := n.(*ast.CallExpr)
				if !ok || len(ce.Args) != 1 {
					return true
				}
				id, ok := ce.Fun.(*ast.Ident)
				if !ok || id.Name != fn {
					return true
				}
				tv, ok := p.info.Types[ce.Args[0]]
				if !ok || tv.Value == nil {
					res = append(res, "?")
					return true
				}
				s, err := intString(tv.Value, fn+" argument")
				if err != nil {
					s = "?"
				}
				res = append(res, s)
				return true
			})
		}
	}
	if len(res) != 1 || res[0] == "?" {
		return "", fmt.Errorf("expected exactly one constant call %s(...) in %s, found %v", fn, inFunc, res)
	}
	return res[0], nil
}

type kv struct{ k, v string }

// the const block that declares `first` (in declaration order)
func (p *pkg) constBlock(first string) ([]kv, error) {
	for _, f := range p.files {
		for _, d := range f.Decls {
			gd, ok := d.(*ast.GenDecl)
			if !ok || gd.Tok != token.CONST {
				continue
			}
			has := false
			for _, s := range gd.Specs {
				for _, n := range s.(*ast.ValueSpec).Names {
					if n.Name == first {
						has = true
					}
				}
			}
			if !has {
				continue
			}
			var out []kv
			for _, s := range gd.Specs {
				for _, n := range s.(*ast.ValueSpec).Names {
					if n.Name == "_" {
						continue
					}
					c, ok := p.info.Defs[n].(*types.Const)
					if !ok {
						return nil, fmt.Errorf("%s is not a constant", n.Name)
					}
					v, err := intString(c.Val(), n.Name)
					if err != nil {
						return nil, err
					}
					out = append(out, kv{n.Name, v})
				}
			}
			return out, nil
		}
	}
	return nil, fmt.Errorf("const block declaring %s not found", first)
}

// var <name> = map[K]string{ CONST: "text", ... }  ->  (number, text) sorted by number
func (p *pkg) stringTable(name string) ([]kv, error) {
	for _, f := range p.files {
		for _, d := range f.Decls {
			gd, ok := d.(*ast.GenDecl)
			if !ok || gd.Tok != token.VAR {
				continue
			}
			for _, s := range gd.Specs {
				vs := s.(*ast.ValueSpec)
				for i, n := range vs.Names {
					if n.Name != name || i >= len(vs.Values) {
						continue
					}
					cl, ok := vs.Values[i].(*ast.CompositeLit)
					if !ok {
						return nil, fmt.Errorf("%s is not a composite literal", name)
					}
					type ent struct {
						num  int64
						k, v string
					}
					var ents []ent
					for _, e := range cl.Elts {
						kve, ok := e.(*ast.KeyValueExpr)
						if !ok {
							return nil, fmt.Errorf("%s: element without key", name)
						}
						ktv, vtv := p.info.Types[kve.Key], p.info.Types[kve.Value]
						if ktv.Value == nil || vtv.Value == nil || vtv.Value.Kind() != constant.String {
							return nil, fmt.Errorf("%s: non-constant entry at %s", name, p.fset.Position(kve.Pos()))
						}
						ks, err := intString(ktv.Value, name+" key")
						if err != nil {
							return nil, err
						}
						num, _ := constant.Int64Val(constant.ToInt(ktv.Value))
						ents = append(ents, ent{num, ks, constant.StringVal(vtv.Value)})
					}
					sort.SliceStable(ents, func(a, b int) bool { return ents[a].num < ents[b].num })
					var out []kv
					for _, e := range ents {
						out = append(out, kv{e.k, e.v})
					}
					return out, nil
				}
			}
		}
	}
	return nil, fmt.Errorf("var %s not found", name)
}

func main() {
	repo := flag.String("repo", "/repo", "root of the mkdb working tree")
	out := flag.String("out", "/verif/coq/Gen", "output directory for Params.v")
	flag.Parse()
	if err := run(*repo, *out); err != nil {
		fmt.Fprintln(os.Stderr, "gen_params:", err)
		os.Exit(1)
	}
}

func run(repo, outDir string) error {
	st, err := load(filepath.Join(repo, "storage"), "storage")
	if err != nil {
		return err
	}
	sq, err := load(filepath.Join(repo, "sql"), "sql")
	if err != nil {
		return err
	}
	var b bytes.Buffer
	b.WriteString("(* GENERATED by tools/gen_params from the Go sources (storage/, sql/). Do not edit. *)\n")
	b.WriteString("From Coq Require Import NArith ZArith String List.\nImport ListNotations.\nLocal Open Scope string_scope.\n\n")

	b.WriteString("(* storage/page.go *)\n")
	for _, n := range []string{"pageSize", "internalNodeHeaderSize", "leafNodeHeaderSize", "offsetElemSize",
		"nodeCellSize", "maxValueSize", "leafNodeCellSize", "maxInternalNodeCells", "maxLeafNodeCells"} {
		v, err := st.constInt(n)
		if err != nil {
			return err
		}
		fmt.Fprintf(&b, "Definition %s : N := %s%%N.\n", n, v)
	}
	for _, n := range []struct{ coq, goName string }{{"tagInternalNode", "InternalNode"}, {"tagLeafNode", "LeafNode"}} {
		v, err := st.constInt(n.goName)
		if err != nil {
			return err
		}
		fmt.Fprintf(&b, "Definition %s : N := %s%%N.\n", n.coq, v)
	}
	lru, err := st.callArg("newFileStore", "NewLRU")
	if err != nil {
		return err
	}
	fmt.Fprintf(&b, "Definition lruCapacity : N := %s%%N.          (* newFileStore: NewLRU(%s) *)\n", lru, lru)
	// time.Duration is in nanoseconds
	pfi := st.tpkg.Scope().Lookup("pageFlushInterval")
	pc, ok := pfi.(*types.Const)
	if !ok {
		return fmt.Errorf("pageFlushInterval not found")
	}
	ns, err := intString(pc.Val(), "pageFlushInterval")
	if err != nil {
		return err
	}
	nsv, okv := constant.Int64Val(constant.ToInt(pc.Val()))
	if !okv || nsv%1000000 != 0 {
		return fmt.Errorf("pageFlushInterval %s ns is not a whole number of milliseconds", ns)
	}
	fmt.Fprintf(&b, "Definition pageFlushInterval_ms : N := %d%%N.\n", nsv/1000000)

	b.WriteString("\n(* storage/relation.go *)\n")
	for _, n := range []string{"initialPageTableOffset", "initialSchemaTableOffset"} {
		v, err := st.constInt(n)
		if err != nil {
			return err
		}
		fmt.Fprintf(&b, "Definition %s : N := %s%%N.\n", n, v)
	}
	for _, n := range []string{"TypeInt", "TypeVarchar", "TypeBoolean", "TypeBigInt"} {
		v, err := st.constInt(n)
		if err != nil {
			return err
		}
		fmt.Fprintf(&b, "Definition code_%s : Z := %s%%Z.\n", n, zlit(v))
	}
	dts, err := st.constBlock("TypeInt")
	if err != nil {
		return err
	}
	b.WriteString("Definition datatype_codes : list (string * Z) := [")
	for i, e := range dts {
		if i > 0 {
			b.WriteString("; ")
		}
		fmt.Fprintf(&b, "(\"%s\", %s%%Z)", e.k, zlit(e.v))
	}
	b.WriteString("].\n")

	b.WriteString("\n(* storage/wal.go *)\n")
	for _, n := range []string{"OpInsert", "OpUpdate", "OpDelete"} {
		v, err := st.constInt(n)
		if err != nil {
			return err
		}
		fmt.Fprintf(&b, "Definition code_%s : N := %s%%N.\n", n, v)
	}
	ops, err := st.constBlock("OpInsert")
	if err != nil {
		return err
	}
	b.WriteString("Definition walop_codes : list (string * N) := [")
	for i, e := range ops {
		if i > 0 {
			b.WriteString("; ")
		}
		fmt.Fprintf(&b, "(\"%s\", %s%%N)", e.k, e.v)
	}
	b.WriteString("].\n")

	b.WriteString("\n(* sql/scanner.go: token enumeration in declaration order, with the fences *)\n")
	toks, err := sq.constBlock("IDENT")
	if err != nil {
		return err
	}
	b.WriteString("Definition token_codes : list (string * Z) := [\n")
	for i, e := range toks {
		sep := ";"
		if i == len(toks)-1 {
			sep = ""
		}
		fmt.Fprintf(&b, "  (\"%s\", %s%%Z)%s\n", e.k, zlit(e.v), sep)
	}
	b.WriteString("].\n")
	for _, n := range []string{"reserved_word_start", "reserved_word_end", "literal_start", "literal_end"} {
		v, err := sq.constInt(n)
		if err != nil {
			return err
		}
		fmt.Fprintf(&b, "Definition tok_%s : Z := %s%%Z.\n", n, zlit(v))
	}
	if v, err := sq.constInt("EOF"); err == nil {
		fmt.Fprintf(&b, "Definition tok_EOF : Z := %s%%Z.          (* sql/go_scanner.go *)\n", zlit(v))
	}
	b.WriteString("\n(* sql/scanner.go: var Tokens (token number -> text), sorted by token number *)\n")
	tt, err := sq.stringTable("Tokens")
	if err != nil {
		return err
	}
	b.WriteString("Definition token_texts : list (Z * string) := [\n")
	for i, e := range tt {
		s, err := coqString(e.v)
		if err != nil {
			return err
		}
		sep := ";"
		if i == len(tt)-1 {
			sep = ""
		}
		fmt.Fprintf(&b, "  (%s%%Z, %s)%s\n", zlit(e.k), s, sep)
	}
	b.WriteString("].\n")

	if err := os.MkdirAll(outDir, 0o755); err != nil {
		return err
	}
	path := filepath.Join(outDir, "Params.v")
	old, err := os.ReadFile(path)
	if err == nil && bytes.Equal(old, b.Bytes()) {
		return nil
	}
	tmp := path + ".tmp"
	if err := os.WriteFile(tmp, b.Bytes(), 0o644); err != nil {
		return err
	}
	return os.Rename(tmp, path)
}
