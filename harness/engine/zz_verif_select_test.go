//go:build verif

package engine

import (
	"bufio"
	"bytes"
	"encoding/json"
	"errors"
	"fmt"
	"os"
	"strings"
	"time"

	"github.com/mk6i/mkdb/sql"
	"github.com/mk6i/mkdb/storage"
)

// select mode.
// Input line:  {"tables":[{"name":"t","cols":[{"name":"a","type":"int|bigint|varchar|boolean"}],
//                          "rows":[[1,"x",true,null],...]}], "queries":["SELECT ...", ...]}
// Output line: {"setup_err":"", "scan":{"t":[[...]]},
//               "results":[{"parse_err":"", "ast":{...}, "kind":"ok|err|panic|timeout",
//                           "err":"FieldNotFound|...", "text":"...", "fields":[["tid","col"]], "rows":[[...]]}]}
// The database is created in ./data of the current (temporary) directory through
// Session.ExecQuery; every query is parsed with parseSQL and run with EvaluateSelect under
// recover() and a 2 s watchdog.

type selCol struct {
	Name string `json:"name"`
	Type string `json:"type"`
}

type selTable struct {
	Name string          `json:"name"`
	Cols []selCol        `json:"cols"`
	Rows [][]interface{} `json:"rows"`
}

type selCase struct {
	Tables  []selTable `json:"tables"`
	Queries []string   `json:"queries"`
}

type selResult struct {
	ParseErr string          `json:"parse_err,omitempty"`
	Ast      interface{}     `json:"ast,omitempty"`
	Kind     string          `json:"kind,omitempty"`
	Err      string          `json:"err,omitempty"`
	Text     string          `json:"text,omitempty"`
	Fields   [][2]string     `json:"fields"`
	Rows     [][]interface{} `json:"rows"`
}

type jm = map[string]interface{}

var errUnrepresentable = errors.New("unrepresentable")

func verifColRef(c sql.ColumnReference) jm {
	return jm{"k": "col", "q": c.Qualifier, "n": c.ColumnName}
}

func verifVexpr(v interface{}) (jm, error) {
	switch x := v.(type) {
	case int64:
		return jm{"k": "int", "v": x}, nil
	case string:
		return jm{"k": "str", "v": x}, nil
	case bool:
		return jm{"k": "bool", "v": x}, nil
	case sql.ColumnReference:
		return verifColRef(x), nil
	}
	return nil, fmt.Errorf("%w: value expression %T", errUnrepresentable, v)
}

var verifOps = map[sql.TokenType]string{sql.EQ: "eq", sql.NEQ: "neq", sql.GT: "gt", sql.LT: "lt", sql.LTE: "lte", sql.GTE: "gte"}

func verifPred(p sql.ComparisonPredicate) ([]interface{}, error) {
	l, err := verifVexpr(p.LHS)
	if err != nil {
		return nil, err
	}
	r, err := verifVexpr(p.RHS)
	if err != nil {
		return nil, err
	}
	op, ok := verifOps[p.CompOp]
	if !ok {
		return nil, fmt.Errorf("%w: comparison operator %v", errUnrepresentable, p.CompOp)
	}
	return []interface{}{l, op, r}, nil
}

func verifExpr(e interface{}) (jm, error) {
	switch x := e.(type) {
	case sql.SearchCondition:
		l, err := verifExpr(x.LHS)
		if err != nil {
			return nil, err
		}
		r, err := verifExpr(x.RHS)
		if err != nil {
			return nil, err
		}
		return jm{"k": "or", "l": l, "r": r}, nil
	case sql.BooleanTerm:
		l, err := verifPred(x.LHS.ComparisonPredicate)
		if err != nil {
			return nil, err
		}
		r, err := verifExpr(x.RHS)
		if err != nil {
			return nil, err
		}
		return jm{"k": "and", "l": l, "r": r}, nil
	case sql.Predicate:
		p, err := verifPred(x.ComparisonPredicate)
		if err != nil {
			return nil, err
		}
		return jm{"k": "pred", "p": p}, nil
	default:
		v, err := verifVexpr(e)
		if err != nil {
			return nil, err
		}
		return jm{"k": "val", "v": v}, nil
	}
}

func verifTableRef(t interface{}) (jm, error) {
	switch x := t.(type) {
	case sql.TableName:
		var alias interface{}
		if x.CorrelationName != nil {
			s, ok := x.CorrelationName.(string)
			if !ok {
				return nil, fmt.Errorf("%w: correlation name %T", errUnrepresentable, x.CorrelationName)
			}
			alias = s
		}
		return jm{"k": "name", "name": x.Name, "alias": alias}, nil
	case sql.QualifiedJoin:
		l, err := verifTableRef(x.LHS)
		if err != nil {
			return nil, err
		}
		r, err := verifTableRef(x.RHS)
		if err != nil {
			return nil, err
		}
		on, err := verifExpr(x.JoinCondition)
		if err != nil {
			return nil, err
		}
		jt, ok := map[sql.JoinType]string{sql.FULL_JOIN: "full", sql.LEFT_JOIN: "left", sql.RIGHT_JOIN: "right", sql.INNER_JOIN: "inner"}[x.JoinType]
		if !ok {
			return nil, fmt.Errorf("%w: join type %d", errUnrepresentable, x.JoinType)
		}
		return jm{"k": "join", "l": l, "jt": jt, "r": r, "on": on}, nil
	}
	return nil, fmt.Errorf("%w: table reference %T", errUnrepresentable, t)
}

// verifSelectAst dumps a sql.Select as canonical JSON (one case per Go struct).
func verifSelectAst(q sql.Select) (jm, error) {
	list := []interface{}{}
	for _, dc := range q.SelectList {
		var p jm
		switch x := dc.ValueExpressionPrimary.(type) {
		case sql.Asterisk:
			p = jm{"k": "star"}
		case sql.Count:
			switch c := x.ValueExpression.(type) {
			case nil:
				p = jm{"k": "count", "c": nil}
			case sql.ColumnReference:
				p = jm{"k": "count", "c": verifColRef(c)}
			default:
				return nil, fmt.Errorf("%w: count argument %T", errUnrepresentable, c)
			}
		case sql.Average:
			c, ok := x.ValueExpression.(sql.ColumnReference)
			if !ok {
				return nil, fmt.Errorf("%w: avg argument %T", errUnrepresentable, x.ValueExpression)
			}
			p = jm{"k": "avg", "c": verifColRef(c)}
		default:
			e, err := verifExpr(x)
			if err != nil {
				return nil, err
			}
			p = jm{"k": "expr", "e": e}
		}
		list = append(list, jm{"p": p, "as": dc.AsClause})
	}
	from := []interface{}{}
	for _, tr := range q.TableExpression.FromClause {
		t, err := verifTableRef(tr)
		if err != nil {
			return nil, err
		}
		from = append(from, t)
	}
	var where interface{}
	if q.TableExpression.WhereClause != nil {
		wc, ok := q.TableExpression.WhereClause.(sql.WhereClause)
		if !ok {
			return nil, fmt.Errorf("%w: where clause %T", errUnrepresentable, q.TableExpression.WhereClause)
		}
		e, err := verifExpr(wc.SearchCondition)
		if err != nil {
			return nil, err
		}
		where = e
	}
	group := []interface{}{}
	for _, c := range q.TableExpression.GroupByClause {
		group = append(group, verifColRef(c))
	}
	sortl := []interface{}{}
	for _, s := range q.SortSpecificationList {
		sortl = append(sortl, jm{"key": verifColRef(s.SortKey), "desc": s.OrderingSpecification.Type == sql.DESC})
	}
	return jm{"list": list, "from": from, "where": where, "group": group, "sort": sortl,
		"la": q.LimitOffsetClause.LimitActive, "oa": q.LimitOffsetClause.OffsetActive,
		"limit": q.LimitOffsetClause.Limit, "offset": q.LimitOffsetClause.Offset}, nil
}

func verifErrClass(err error) string {
	switch {
	case errors.Is(err, ErrSortFieldNotFound):
		return "SortFieldNotFound"
	case errors.Is(err, storage.ErrFieldNotFound):
		return "FieldNotFound"
	case errors.Is(err, storage.ErrFieldAmbiguous):
		return "FieldAmbiguous"
	case errors.Is(err, ErrIncompatTypeCompare):
		return "IncompatTypeCompare"
	case errors.Is(err, ErrNonBoolJoinCond):
		return "NonBoolJoinCond"
	case errors.Is(err, storage.ErrTableNotExist):
		return "TableNotExist"
	case errors.Is(err, ErrTmpUnsupportedSyntax), errors.Is(err, sql.ErrTmpUnsupportedSyntax):
		return "TmpUnsupported"
	}
	return "Other"
}

func verifTypedVal(v interface{}) interface{} {
	switch x := v.(type) {
	case nil:
		return nil
	case int64, string, bool:
		return x
	}
	return jm{"other": fmt.Sprintf("%T:%v", v, v)}
}

func verifRows(rows []*storage.Row) [][]interface{} {
	out := [][]interface{}{}
	for _, r := range rows {
		vals := []interface{}{}
		if r != nil {
			for _, v := range r.Vals {
				vals = append(vals, verifTypedVal(v))
			}
		}
		out = append(out, vals)
	}
	return out
}

// verifQuiet runs f with os.Stdout pointed at /dev/null (the engine prints progress lines).
func verifQuiet(f func()) {
	old := os.Stdout
	null, err := os.OpenFile(os.DevNull, os.O_WRONLY, 0)
	if err == nil {
		os.Stdout = null
	}
	defer func() {
		os.Stdout = old
		if err == nil {
			null.Close()
		}
	}()
	f()
}

type verifSelOut struct {
	rows   []*storage.Row
	fields []*storage.Field
	err    error
	pan    interface{}
}

func verifRunSelect(q sql.Select, rm RelationManager) (verifSelOut, bool) {
	ch := make(chan verifSelOut, 1)
	go func() {
		var o verifSelOut
		defer func() {
			if r := recover(); r != nil {
				o.pan = r
			}
			ch <- o
		}()
		o.rows, o.fields, o.err = EvaluateSelect(q, rm)
	}()
	select {
	case o := <-ch:
		return o, true
	case <-time.After(2 * time.Second):
		return verifSelOut{}, false
	}
}

func verifSQLLit(v interface{}) (string, bool) {
	switch x := v.(type) {
	case json.Number:
		if strings.HasPrefix(x.String(), "-") {
			return "", false
		}
		return x.String(), true
	case string:
		return "'" + x + "'", true
	case bool:
		if x {
			return "true", true
		}
		return "false", true
	}
	return "", false
}

func verifGoVal(v interface{}) (interface{}, error) {
	switch x := v.(type) {
	case json.Number:
		n, err := x.Int64()
		return n, err
	case string, bool:
		return x, nil
	}
	return nil, fmt.Errorf("bad cell %T", v)
}

// verifLoadTable creates the table and inserts the rows in order. Consecutive rows with the
// same NULL pattern go into one INSERT statement (NULL = column left out of the column list).
// Rows holding a negative integer (which SQL text cannot express) are inserted through
// EvaluateInsert with a hand-built statement.
func verifLoadTable(sess *Session, t selTable) error {
	defs := []string{}
	for _, c := range t.Cols {
		ty := map[string]string{"int": "int", "bigint": "bigint", "varchar": "varchar(255)", "boolean": "boolean"}[c.Type]
		if ty == "" {
			return fmt.Errorf("bad column type %q", c.Type)
		}
		defs = append(defs, c.Name+" "+ty)
	}
	if err := sess.ExecQuery("CREATE TABLE " + t.Name + " (" + strings.Join(defs, ", ") + ")"); err != nil {
		return fmt.Errorf("create table %s: %w", t.Name, err)
	}
	pattern := func(r []interface{}) string {
		var sb strings.Builder
		for _, v := range r {
			if v == nil {
				sb.WriteByte('0')
			} else {
				sb.WriteByte('1')
			}
		}
		return sb.String()
	}
	i := 0
	for i < len(t.Rows) {
		j := i
		for j < len(t.Rows) && pattern(t.Rows[j]) == pattern(t.Rows[i]) && j-i < 16 {
			j++
		}
		cols := []string{}
		for k, v := range t.Rows[i] {
			if len(t.Rows[i]) != len(t.Cols) {
				return fmt.Errorf("row width")
			}
			if v != nil {
				cols = append(cols, t.Cols[k].Name)
			}
		}
		textual := true
		tuples := []string{}
		var rvcs []sql.RowValueConstructor
		for _, r := range t.Rows[i:j] {
			lits := []string{}
			var vals []interface{}
			for _, v := range r {
				if v == nil {
					continue
				}
				s, ok := verifSQLLit(v)
				if !ok {
					textual = false
				}
				lits = append(lits, s)
				gv, err := verifGoVal(v)
				if err != nil {
					return err
				}
				vals = append(vals, gv)
			}
			if len(cols) == 0 {
				// an all-NULL row: NULL cannot be written in SQL text and an empty column list
				// would mean "all columns", so name every column and hand Insert nil values
				textual = false
				vals = make([]interface{}, len(t.Cols))
			}
			tuples = append(tuples, "("+strings.Join(lits, ", ")+")")
			rvcs = append(rvcs, sql.RowValueConstructor{RowValueConstructorList: vals})
		}
		if len(cols) == 0 {
			for _, c := range t.Cols {
				cols = append(cols, c.Name)
			}
		}
		if textual {
			q := "INSERT INTO " + t.Name + " (" + strings.Join(cols, ", ") + ") VALUES " + strings.Join(tuples, ", ")
			if err := sess.ExecQuery(q); err != nil {
				return fmt.Errorf("%s: %w", q, err)
			}
		} else {
			stmt := sql.InsertStatement{TableName: t.Name}
			stmt.InsertColumnsAndSource.InsertColumnList.ColumnNames = cols
			stmt.InsertColumnsAndSource.QueryExpression = sql.TableValueConstructor{TableValueConstructorList: rvcs}
			if _, err := EvaluateInsert(stmt, sess.RelationService); err != nil {
				return fmt.Errorf("insert into %s: %w", t.Name, err)
			}
		}
		i = j
	}
	return nil
}

var verifDBCounter int

func verifSelectCase(c selCase) jm {
	out := jm{}
	results := []selResult{}
	scan := jm{}
	verifDBCounter++
	dbName := fmt.Sprintf("vdb%d", verifDBCounter)
	sess := &Session{}
	abandoned := false
	var setupErr error
	verifQuiet(func() {
		if setupErr = sess.ExecQuery("CREATE DATABASE " + dbName); setupErr != nil {
			return
		}
		if setupErr = sess.ExecQuery("USE " + dbName); setupErr != nil {
			return
		}
		for _, t := range c.Tables {
			if setupErr = verifLoadTable(sess, t); setupErr != nil {
				return
			}
		}
		for _, t := range c.Tables {
			rows, _, err := sess.RelationService.Fetch(t.Name)
			if err != nil {
				setupErr = fmt.Errorf("scan %s: %w", t.Name, err)
				return
			}
			scan[t.Name] = verifRows(rows)
		}
	})
	if setupErr != nil {
		out["setup_err"] = setupErr.Error()
	} else {
		for _, text := range c.Queries {
			res := selResult{Fields: [][2]string{}, Rows: [][]interface{}{}}
			if abandoned {
				res.Kind = "timeout"
				results = append(results, res)
				continue
			}
			var stmt interface{}
			var perr error
			func() {
				defer func() {
					if r := recover(); r != nil {
						perr = fmt.Errorf("parser panic: %v", r)
					}
				}()
				stmt, perr = parseSQL(text)
			}()
			if perr != nil {
				res.ParseErr = perr.Error()
				results = append(results, res)
				continue
			}
			sel, ok := stmt.(sql.Select)
			if !ok {
				res.ParseErr = fmt.Sprintf("not a SELECT: %T", stmt)
				results = append(results, res)
				continue
			}
			ast, aerr := verifSelectAst(sel)
			if aerr != nil {
				res.ParseErr = aerr.Error()
				results = append(results, res)
				continue
			}
			res.Ast = ast
			var o verifSelOut
			var finished bool
			verifQuiet(func() { o, finished = verifRunSelect(sel, sess.RelationService) })
			switch {
			case !finished:
				res.Kind = "timeout"
				abandoned = true
			case o.pan != nil:
				res.Kind = "panic"
				res.Text = fmt.Sprint(o.pan)
			case o.err != nil:
				res.Kind = "err"
				res.Err = verifErrClass(o.err)
				res.Text = o.err.Error()
			default:
				res.Kind = "ok"
				for _, f := range o.fields {
					col := ""
					if f != nil {
						if s, ok := f.Column.(string); ok {
							col = s
						} else {
							col = fmt.Sprintf("%v", f.Column)
						}
						res.Fields = append(res.Fields, [2]string{f.TableID, col})
					} else {
						res.Fields = append(res.Fields, [2]string{"<nil>", "<nil>"})
					}
				}
				res.Rows = verifRows(o.rows)
			}
			results = append(results, res)
		}
	}
	if !abandoned {
		verifQuiet(func() { sess.Close() })
	}
	os.RemoveAll("data")
	out["scan"] = scan
	out["results"] = results
	return out
}

func init() {
	verifModes["select"] = func(in *bufio.Scanner, out *json.Encoder) error {
		out.SetEscapeHTML(false)
		for in.Scan() {
			var c selCase
			dec := json.NewDecoder(bytes.NewReader(in.Bytes()))
			dec.UseNumber()
			if err := dec.Decode(&c); err != nil {
				return err
			}
			if err := out.Encode(verifSelectCase(c)); err != nil {
				return err
			}
		}
		return in.Err()
	}
}
