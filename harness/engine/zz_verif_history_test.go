//go:build verif

package engine

// mode "history": runs an event history (SQL statements, flushes, crashes, crashes inside the
// log append) against real storage with the flush timer off, and reports statement outcomes,
// SELECT * of every table and page dumps.

import (
	"bufio"
	"encoding/json"
	"errors"
	"fmt"
	"io"
	"os"
	"os/exec"
	"path/filepath"
	"runtime/debug"
	"syscall"
	"time"

	"github.com/mk6i/mkdb/sql"
	"github.com/mk6i/mkdb/storage"
)

type histEvent struct {
	T      string   `json:"t"`      // sql | flush | crash | crashlog | dump | tables | recover2
	Q      string   `json:"q"`      // statement text
	Then   []string `json:"then"`   // crashlog: statements run after each recovery
	Tables []string `json:"tables"` // tables to read back
	Seed   int      `json:"seed"`
	D      *histDirect `json:"d"`
}

// histDirect: INSERT / UPDATE / DELETE with typed values: null | ["i","-5"] | ["s",[bytes]] | ["b",true]
type histDirect struct {
	K     string            `json:"k"`
	Table string            `json:"table"`
	Cols  []string          `json:"cols"`
	Rows  [][]interface{}   `json:"rows"`
	Sets  [][]interface{}   `json:"sets"`  // [col, value]
	Where string            `json:"where"` // SQL text of the condition, may be empty
}

func histGoVal(v interface{}) interface{} {
	if v == nil {
		return nil
	}
	a := v.([]interface{})
	switch a[0].(string) {
	case "i":
		var n int64
		fmt.Sscanf(a[1].(string), "%d", &n)
		return n
	case "b":
		return a[1].(bool)
	case "s":
		bs := a[1].([]interface{})
		b := make([]byte, len(bs))
		for i, x := range bs {
			b[i] = byte(x.(float64))
		}
		return string(b)
	}
	return nil
}

func histWhere(table, cond string) (interface{}, error) {
	if cond == "" {
		return nil, nil
	}
	st, err := parseSQL("DELETE FROM " + table + " WHERE " + cond)
	if err != nil {
		return nil, err
	}
	return st.(sql.DeleteStatementSearched).WhereClause, nil
}

func (h *histRun) direct(d *histDirect) string {
	return histGuard(func() error {
		var err error
		histQuiet(func() {
			switch d.K {
			case "insert":
				tvc := sql.TableValueConstructor{}
				for _, r := range d.Rows {
					rvc := sql.RowValueConstructor{}
					for _, v := range r {
						rvc.RowValueConstructorList = append(rvc.RowValueConstructorList, histGoVal(v))
					}
					tvc.TableValueConstructorList = append(tvc.TableValueConstructorList, rvc)
				}
				q := sql.InsertStatement{TableName: d.Table, InsertColumnsAndSource: sql.InsertColumnsAndSource{
					InsertColumnList: sql.InsertColumnList{ColumnNames: d.Cols}, QueryExpression: tvc}}
				_, err = EvaluateInsert(q, h.rs)
			case "update":
				var w interface{}
				w, err = histWhere(d.Table, d.Where)
				if err != nil {
					return
				}
				q := sql.UpdateStatementSearched{TableName: d.Table, Where: w}
				for _, sv := range d.Sets {
					q.Set = append(q.Set, sql.SetClause{ObjectColumn: sv[0].(string), UpdateSource: histGoVal(sv[1])})
				}
				err = EvaluateUpdate(q, h.rs)
			case "delete":
				var w interface{}
				w, err = histWhere(d.Table, d.Where)
				if err != nil {
					return
				}
				_, err = EvaluateDelete(sql.DeleteStatementSearched{TableName: d.Table, WhereClause: w}, h.rs)
			default:
				err = fmt.Errorf("unknown direct statement %q", d.K)
			}
		})
		return err
	})
}

type histCase struct {
	Cache  int         `json:"cache"`
	Events []histEvent `json:"events"`
}

type histTable struct {
	Name string          `json:"name"`
	Err  string          `json:"err"`
	Cols []string        `json:"cols"`
	IDs  []uint32        `json:"ids"`
	Rows [][]interface{} `json:"rows"`
}

type histOut struct {
	T       string                `json:"t"`
	Res     string                `json:"res"` // ok | error class | panic:<msg> | timeout
	Tables  []histTable           `json:"tables,omitempty"`
	Pages   []storage.VerifPage   `json:"pages,omitempty"`
	Header  *storage.VerifHeader  `json:"header,omitempty"`
	Crashes []histCrash           `json:"crashes,omitempty"`
	Cache   []int                 `json:"cache,omitempty"`
	Torn    *histTorn             `json:"torn,omitempty"`
}

type histTornCase struct {
	Pages []int `json:"pages"`
	// > 0: before the recovery that is observed, a first recovery ran in a process whose file
	// writes at or beyond PreLimit pages fail (RLIMIT_FSIZE): a crash inside the flush that ends
	// recovery itself
	PreLimit int         `json:"prelimit,omitempty"`
	Recover string      `json:"recover"`
	Tables  []histTable `json:"tables"`
	ThenRes []string    `json:"thenRes"`
	Tables2 []histTable `json:"tables2"`
}

type histTorn struct {
	Diff     []int          `json:"diff"`     // offsets of the pages the flush changed
	New      []bool         `json:"new"`      // page lies beyond the end of the file before the flush
	Internal []bool         `json:"internal"` // page written is an internal node
	Cases    []histTornCase `json:"cases"`
}

type histCrash struct {
	Point    int         `json:"point"`   // crash before the point-th write/sync call of the statement
	Cut      string      `json:"cut"`     // "write" (all bytes written so far) | "sync" (bytes up to the last fsync)
	Bytes    int         `json:"bytes"`   // log bytes of this statement that survive
	Records  int         `json:"records"` // complete records among them
	Recover  string      `json:"recover"` // ok | error text | panic
	Tables   []histTable `json:"tables"`
	ThenRes  []string    `json:"thenRes"`
	Tables2  []histTable `json:"tables2"`
	Recover2 string      `json:"recover2"`
	Tables3  []histTable `json:"tables3"`
}

func histErrClass(err error) string {
	if err == nil {
		return "ok"
	}
	if c := storage.VerifErrClass(err); c != "" {
		return c
	}
	switch {
	case errors.Is(err, ErrIncompatTypeCompare):
		return "Incompat"
	case errors.Is(err, ErrTmpUnsupportedSyntax):
		return "TmpUnsupported"
	case errors.Is(err, ErrSortFieldNotFound):
		return "SortFieldNotFound"
	}
	return "Other:" + err.Error()
}

func histQuiet(f func()) {
	old := os.Stdout
	devnull, _ := os.OpenFile(os.DevNull, os.O_WRONLY, 0)
	os.Stdout = devnull
	defer func() { os.Stdout = old; devnull.Close() }()
	f()
}

// run f under recover() and a watchdog
func histGuard(f func() error) (res string) {
	done := make(chan string, 1)
	go func() {
		defer func() {
			if r := recover(); r != nil {
				done <- fmt.Sprintf("panic:%v", r)
			}
		}()
		done <- histErrClass(f())
	}()
	select {
	case r := <-done:
		return r
	case <-time.After(20 * time.Second):
		return "timeout"
	}
}

func histTyped(v interface{}) interface{} {
	switch x := v.(type) {
	case nil:
		return nil
	case int64:
		return []interface{}{"i", fmt.Sprintf("%d", x)}
	case string:
		b := make([]int, len(x))
		for i := 0; i < len(x); i++ {
			b[i] = int(x[i])
		}
		return []interface{}{"s", b}
	case bool:
		return []interface{}{"b", x}
	}
	return []interface{}{"?", fmt.Sprintf("%v", v)}
}

func histReadTable(rs *storage.RelationService, name string) histTable {
	t := histTable{Name: name, Cols: []string{}, IDs: []uint32{}, Rows: [][]interface{}{}}
	t.Err = histGuard(func() error {
		q := sql.Select{SelectList: sql.SelectList{{ValueExpressionPrimary: sql.Asterisk{}}},
			TableExpression: sql.TableExpression{FromClause: sql.FromClause{sql.TableName{Name: name}}}}
		var rows []*storage.Row
		var fields []*storage.Field
		var err error
		histQuiet(func() { rows, fields, err = EvaluateSelect(q, rs) })
		if err != nil {
			return err
		}
		for _, f := range fields {
			t.Cols = append(t.Cols, fmt.Sprintf("%v", f.Column))
		}
		for _, r := range rows {
			t.IDs = append(t.IDs, r.RowID)
			vals := []interface{}{}
			for _, v := range r.Vals {
				vals = append(vals, histTyped(v))
			}
			t.Rows = append(t.Rows, vals)
		}
		return nil
	})
	return t
}

func histReadTables(rs *storage.RelationService, names []string) []histTable {
	out := []histTable{}
	for _, n := range names {
		out = append(out, histReadTable(rs, n))
	}
	return out
}

func histCopyFile(src, dst string, limit int64) error {
	in, err := os.Open(src)
	if err != nil {
		return err
	}
	defer in.Close()
	out, err := os.Create(dst)
	if err != nil {
		return err
	}
	defer out.Close()
	if limit >= 0 {
		_, err = io.CopyN(out, in, limit)
		if err == io.EOF {
			err = nil
		}
	} else {
		_, err = io.Copy(out, in)
	}
	return err
}

const histDB = "vdb"

// histImage copies data/vdb/{tbl,wal} of directory `from` into a fresh directory and returns
// it; walLen < 0 copies the whole log
func histImage(root string, n int, from string, walLen int64) (string, error) {
	dir := filepath.Join(root, fmt.Sprintf("img%d", n))
	dst := filepath.Join(dir, storage.VerifDataPath(histDB))
	if err := os.MkdirAll(dst, 0755); err != nil {
		return "", err
	}
	src := filepath.Join(from, storage.VerifDataPath(histDB))
	if err := histCopyFile(filepath.Join(src, "tbl"), filepath.Join(dst, "tbl"), -1); err != nil {
		return "", err
	}
	if err := histCopyFile(filepath.Join(src, "wal"), filepath.Join(dst, "wal"), walLen); err != nil {
		return "", err
	}
	return dir, nil
}

type histRun struct {
	root   string // scratch root (absolute)
	cur    string // current working image dir (absolute)
	nimg   int
	cache  int
	rs     *storage.RelationService
	sess   *Session
}

func (h *histRun) open() error {
	if err := os.Chdir(h.cur); err != nil {
		return err
	}
	rs, err := storage.VerifOpenRelation(histDB, h.cache, false)
	if err != nil {
		return err
	}
	h.rs = rs
	h.sess = &Session{CurDB: histDB, RelationService: rs}
	return nil
}

// recoverIn runs InitStorage in directory dir (as the console does at start-up)
func histRecover(dir string) string {
	if err := os.Chdir(dir); err != nil {
		return "chdir:" + err.Error()
	}
	return histGuard(func() error {
		var err error
		histQuiet(func() { err = storage.InitStorage() })
		return err
	})
}

func (h *histRun) exec(q string) string {
	return histGuard(func() error {
		var err error
		histQuiet(func() { err = h.sess.ExecQuery(q) })
		return err
	})
}

func (h *histRun) walLen() int64 {
	st, err := os.Stat(filepath.Join(h.cur, storage.VerifDataPath(histDB), "wal"))
	if err != nil {
		return 0
	}
	return st.Size()
}

func histRunCase(c histCase) ([]histOut, error) {
	root, err := os.MkdirTemp("", "verif_hist_")
	if err != nil {
		return nil, err
	}
	defer os.RemoveAll(root)
	oldwd, _ := os.Getwd()
	defer os.Chdir(oldwd)

	h := &histRun{root: root, cache: c.Cache}
	h.cur = filepath.Join(root, "img0")
	if err := os.MkdirAll(h.cur, 0755); err != nil {
		return nil, err
	}
	if err := os.Chdir(h.cur); err != nil {
		return nil, err
	}
	var cerr error
	histQuiet(func() { cerr = storage.CreateDB(histDB) })
	if cerr != nil {
		return nil, cerr
	}
	if err := h.open(); err != nil {
		return nil, err
	}
	outs := []histOut{}
	for _, ev := range c.Events {
		o := histOut{T: ev.T}
		switch ev.T {
		case "sql":
			o.Res = h.exec(ev.Q)
		case "direct":
			// a statement given as values (not text): engine.Evaluate* is called directly
			o.Res = h.direct(ev.D)
		case "flush":
			o.Res = histGuard(func() error { return h.rs.VerifFlush() })
		case "tables":
			o.Res = "ok"
			o.Tables = histReadTables(h.rs, ev.Tables)
		case "dump":
			pages, err := h.rs.VerifDump()
			o.Res = histErrClass(err)
			o.Pages = pages
			hd := h.rs.VerifHeader()
			o.Header = &hd
			n, d := h.rs.VerifCacheLen()
			o.Cache = []int{n, d}
		case "crash":
			// the process dies at a statement boundary: copy the files as they are, recover there
			h.nimg++
			img, err := histImage(h.root, h.nimg, h.cur, -1)
			if err != nil {
				return nil, err
			}
			h.rs.VerifAbandon()
			o.Res = histRecover(img)
			h.cur = img
			if o.Res == "ok" {
				if err := h.open(); err != nil {
					return nil, err
				}
			} else {
				outs = append(outs, o)
				return outs, nil
			}
		case "crashlog":
			// run the statement on the live service while recording every write/sync on the log;
			// then, for every crash point and both cut rules, recover an image and look at it
			before := h.walLen()
			type call struct {
				kind string
				n    int
			}
			var calls []call
			h.rs.VerifWALHook(func(kind string, n int) { calls = append(calls, call{kind, n}) })
			// image of the data file as it is while the statement appends to the log: the
			// flush timer is off, so it equals the file at statement start
			h.nimg++
			pre, err := histImage(h.root, h.nimg, h.cur, -1)
			if err != nil {
				return nil, err
			}
			o.Res = h.exec(ev.Q)
			h.rs.VerifWALHook(func(string, int) {})
			// frame boundaries: write(4) write(body) sync
			written := 0
			synced := 0
			type cut struct{ point, bytes, records int; rule string }
			var cuts []cut
			recsW, recsS := 0, 0
			nW := 0
			for i, cl := range calls {
				cuts = append(cuts, cut{i, written, recsW, "write"})
				if synced != written {
					cuts = append(cuts, cut{i, synced, recsS, "sync"})
				}
				if cl.kind == "write" {
					written += cl.n
					nW++
					if nW%2 == 0 {
						recsW++
					}
				} else {
					synced = written
					recsS = recsW
				}
			}
			for _, ct := range cuts {
				h.nimg++
				img, err := histImage(h.root, h.nimg, pre, -1)
				if err != nil {
					return nil, err
				}
				// the log of the image = log before the statement + surviving bytes
				if err := histCopyFile(filepath.Join(h.cur, storage.VerifDataPath(histDB), "wal"),
					filepath.Join(img, storage.VerifDataPath(histDB), "wal"), before+int64(ct.bytes)); err != nil {
					return nil, err
				}
				cr := histCrash{Point: ct.point, Cut: ct.rule, Bytes: ct.bytes, Records: ct.records}
				cr.Recover = histRecover(img)
				if cr.Recover == "ok" {
					rs2, err := storage.VerifOpenRelation(histDB, h.cache, false)
					if err != nil {
						cr.Recover = "open:" + err.Error()
					} else {
						cr.Tables = histReadTables(rs2, ev.Tables)
						s2 := &Session{CurDB: histDB, RelationService: rs2}
						for _, q := range ev.Then {
							q := q
							cr.ThenRes = append(cr.ThenRes, histGuard(func() error {
								var err error
								histQuiet(func() { err = s2.ExecQuery(q) })
								return err
							}))
						}
						cr.Tables2 = histReadTables(rs2, ev.Tables)
						rs2.VerifAbandon()
						// crash again right away and recover a second time
						cr.Recover2 = histRecover(img)
						if cr.Recover2 == "ok" {
							rs3, err := storage.VerifOpenRelation(histDB, h.cache, false)
							if err == nil {
								cr.Tables3 = histReadTables(rs3, ev.Tables)
								rs3.VerifAbandon()
							}
						}
					}
				}
				o.Crashes = append(o.Crashes, cr)
				os.RemoveAll(img)
			}
			os.RemoveAll(pre)
			if err := os.Chdir(h.cur); err != nil {
				return nil, err
			}
		case "tornflush":
			// flush on the live service; then every way the flush could have been cut short:
			// the data file as before the flush plus any subset of the pages the flush changed,
			// header unwritten (it is written last), log as it is
			tbl := filepath.Join(h.cur, storage.VerifDataPath(histDB), "tbl")
			pre, err := os.ReadFile(tbl)
			if err != nil {
				return nil, err
			}
			o.Res = histGuard(func() error { return h.rs.VerifFlush() })
			post, err := os.ReadFile(tbl)
			if err != nil {
				return nil, err
			}
			ps := int(storage.VerifPageSize)
			var diff []int
			for off := ps; off < len(post); off += ps {
				end := off + ps
				if end > len(post) {
					end = len(post)
				}
				var a []byte
				if off < len(pre) {
					e2 := end
					if e2 > len(pre) {
						e2 = len(pre)
					}
					a = pre[off:e2]
				}
				if string(a) != string(post[off:end]) {
					diff = append(diff, off)
				}
			}
			o.Torn = &histTorn{Diff: diff}
			for _, off := range diff {
				o.Torn.New = append(o.Torn.New, off >= len(pre))
				o.Torn.Internal = append(o.Torn.Internal, post[off] == 0)
			}
			// subsets: all of them for up to 6 differing pages, otherwise singletons, complements
			// of singletons, and seeded random ones
			var subsets [][]int
			n := len(diff)
			if n <= 6 {
				for m := 0; m < 1<<uint(n); m++ {
					var sub []int
					for b := 0; b < n; b++ {
						if m&(1<<uint(b)) != 0 {
							sub = append(sub, diff[b])
						}
					}
					subsets = append(subsets, sub)
				}
			} else {
				subsets = append(subsets, nil, diff)
				for b := 0; b < n; b++ {
					subsets = append(subsets, []int{diff[b]})
					var sub []int
					for c := 0; c < n; c++ {
						if c != b {
							sub = append(sub, diff[c])
						}
					}
					subsets = append(subsets, sub)
				}
				seed := uint64(ev.Seed)*2654435761 + 12345
				for k := 0; k < 24; k++ {
					var sub []int
					for b := 0; b < n; b++ {
						seed = seed*6364136223846793005 + 1442695040888963407
						if (seed>>33)&1 == 1 {
							sub = append(sub, diff[b])
						}
					}
					subsets = append(subsets, sub)
				}
			}
			type tornVariant struct {
				sub      []int
				preLimit int
			}
			var variants []tornVariant
			for si, sub := range subsets {
				variants = append(variants, tornVariant{sub, 0})
				if si == 0 || si == len(subsets)-1 || si%5 == 2 {
					// the recovery of this image is itself cut short inside its final flush, then repeated:
					// writes at or beyond page 1 (no page at all), and beyond two other places spread over the
					// whole file (a root written but not its newer leaf, a leaf but not the newer root, ...)
					np := len(post) / ps
					if np < 2 {
						np = 2
					}
					l2 := 2 + (si*7+int(ev.Seed))%(np-1)
					l3 := 2 + (si*13+5+int(ev.Seed))%(np-1)
					variants = append(variants, tornVariant{sub, 1}, tornVariant{sub, l2})
					if l3 != l2 {
						variants = append(variants, tornVariant{sub, l3})
					}
					if si == 0 && np <= 48 {
						// nothing of the flush was written (a crash before it): cut the recovery's own flush at
						// every page boundary of the file
						for l := 2; l <= np; l++ {
							if l != l2 && l != l3 {
								variants = append(variants, tornVariant{sub, l})
							}
						}
					}
				}
			}
			for _, tv := range variants {
				sub := tv.sub
				h.nimg++
				img, err := histImage(h.root, h.nimg, h.cur, -1)
				if err != nil {
					return nil, err
				}
				buf := make([]byte, len(pre))
				copy(buf, pre)
				for _, off := range sub {
					end := off + ps
					if end > len(post) {
						end = len(post)
					}
					if end > len(buf) {
						buf = append(buf, make([]byte, end-len(buf))...)
					}
					copy(buf[off:end], post[off:end])
				}
				if err := os.WriteFile(filepath.Join(img, storage.VerifDataPath(histDB), "tbl"), buf, 0644); err != nil {
					return nil, err
				}
				tc := histTornCase{Pages: append([]int{}, sub...), PreLimit: tv.preLimit}
				if tv.preLimit > 0 {
					histRecoverLimited(img, tv.preLimit)
				}
				// recovery of a torn image can die with a fatal error that recover() cannot catch
				// (unbounded recursion through a page that was never written): run it in a child
				tc.Recover, tc.Tables, tc.ThenRes, tc.Tables2 = histRecoverIsolated(img, ev.Tables, h.cache, ev.Then)
				o.Torn.Cases = append(o.Torn.Cases, tc)
				os.RemoveAll(img)
			}
			if err := os.Chdir(h.cur); err != nil {
				return nil, err
			}
		default:
			return nil, fmt.Errorf("unknown event %q", ev.T)
		}
		outs = append(outs, o)
	}
	h.rs.VerifAbandon()
	return outs, nil
}

type histRecoverReq struct {
	Dir    string   `json:"dir"`
	Tables []string `json:"tables"`
	Cache  int      `json:"cache"`
	Then   []string `json:"then"`
}

type histRecoverResp struct {
	Recover string      `json:"recover"`
	Tables  []histTable `json:"tables"`
	ThenRes []string    `json:"thenRes"`
	Tables2 []histTable `json:"tables2"`
}

// histRecoverLimited runs recovery on the image in a child process whose file writes at or beyond
// `pages` pages fail (RLIMIT_FSIZE: the kernel refuses the write and sends SIGXFSZ), so that the
// flush which ends recovery is cut short at a real point of the real code; whatever the child did
// to the data file and the log stays in the image. Its outcome is not looked at.
func histRecoverLimited(img string, pages int) {
	in := filepath.Join(img, "req0.json")
	b, _ := json.Marshal(histRecoverReq{Dir: img})
	if err := os.WriteFile(in, append(b, '\n'), 0644); err != nil {
		return
	}
	cmd := exec.Command(os.Args[0], "-test.run", "^TestVerifDriver$", "-test.timeout", "30s")
	cmd.Env = append(os.Environ(), "VERIF_MODE=recoverimg", "VERIF_IN="+in, "VERIF_OUT="+filepath.Join(img, "resp0.json"),
		fmt.Sprintf("VERIF_FSIZE_PAGES=%d", pages))
	cmd.Dir = img
	done := make(chan error, 1)
	if err := cmd.Start(); err != nil {
		return
	}
	go func() { done <- cmd.Wait() }()
	select {
	case <-done:
	case <-time.After(40 * time.Second):
		cmd.Process.Kill()
		<-done
	}
	os.Remove(in)
	os.Remove(filepath.Join(img, "resp0.json"))
}

// histRecoverIsolated re-executes this test binary in mode "recoverimg" on one image directory
func histRecoverIsolated(img string, tables []string, cache int, then []string) (string, []histTable, []string, []histTable) {
	in := filepath.Join(img, "req.json")
	out := filepath.Join(img, "resp.json")
	b, _ := json.Marshal(histRecoverReq{Dir: img, Tables: tables, Cache: cache, Then: then})
	if err := os.WriteFile(in, append(b, '\n'), 0644); err != nil {
		return "harness:" + err.Error(), nil, nil, nil
	}
	cmd := exec.Command(os.Args[0], "-test.run", "^TestVerifDriver$", "-test.timeout", "30s")
	cmd.Env = append(os.Environ(), "VERIF_MODE=recoverimg", "VERIF_IN="+in, "VERIF_OUT="+out)
	cmd.Dir = img
	done := make(chan error, 1)
	if err := cmd.Start(); err != nil {
		return "harness:" + err.Error(), nil, nil, nil
	}
	go func() { done <- cmd.Wait() }()
	select {
	case <-done:
	case <-time.After(40 * time.Second):
		cmd.Process.Kill()
		return "timeout", nil, nil, nil
	}
	rb, err := os.ReadFile(out)
	if err != nil || len(rb) == 0 {
		return "panic:process died during recovery (fatal error)", nil, nil, nil
	}
	var resp histRecoverResp
	if err := json.Unmarshal(rb, &resp); err != nil {
		return "panic:process died during recovery (fatal error)", nil, nil, nil
	}
	return resp.Recover, resp.Tables, resp.ThenRes, resp.Tables2
}

func init() {
	verifModes["recoverimg"] = func(in *bufio.Scanner, out *json.Encoder) error {
		debug.SetMaxStack(64 << 20)
		for in.Scan() {
			var req histRecoverReq
			if err := json.Unmarshal(in.Bytes(), &req); err != nil {
				return err
			}
			resp := histRecoverResp{}
			if lim := os.Getenv("VERIF_FSIZE_PAGES"); lim != "" {
				// recovery only, with file writes at or beyond the limit refused by the kernel
				var n int
				fmt.Sscanf(lim, "%d", &n)
				lim := syscall.Rlimit{Cur: uint64(n) * uint64(storage.VerifPageSize), Max: uint64(n) * uint64(storage.VerifPageSize)}
				if err := syscall.Setrlimit(syscall.RLIMIT_FSIZE, &lim); err != nil {
					return err
				}
				histRecover(req.Dir)
				os.Exit(0)
			}
			resp.Recover = histRecover(req.Dir)
			if resp.Recover == "ok" {
				rs2, err := storage.VerifOpenRelation(histDB, req.Cache, false)
				if err != nil {
					resp.Recover = "open:" + err.Error()
				} else {
					resp.Tables = histReadTables(rs2, req.Tables)
					s2 := &Session{CurDB: histDB, RelationService: rs2}
					for _, q := range req.Then {
						q := q
						resp.ThenRes = append(resp.ThenRes, histGuard(func() error {
							var err error
							histQuiet(func() { err = s2.ExecQuery(q) })
							return err
						}))
					}
					if len(req.Then) > 0 {
						resp.Tables2 = histReadTables(rs2, req.Tables)
					}
					rs2.VerifAbandon()
				}
			}
			if err := out.Encode(resp); err != nil {
				return err
			}
		}
		return in.Err()
	}
	verifModes["history"] = func(in *bufio.Scanner, out *json.Encoder) error {
		for in.Scan() {
			var c histCase
			if err := json.Unmarshal(in.Bytes(), &c); err != nil {
				return err
			}
			outs, err := histRunCase(c)
			if err != nil {
				return err
			}
			if err := out.Encode(map[string]interface{}{"events": outs}); err != nil {
				return err
			}
		}
		return in.Err()
	}
}
