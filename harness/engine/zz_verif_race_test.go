//go:build verif

package engine

// C13 driver (mode "race"): one session against real databases with the REAL 100 ms flush
// ticker, meant to be built with -race.
//
//   - "racing" steps go through Session.ExecQuery (the real dispatch) at a pace that lets
//     ticks fall between and inside statements: CREATE TABLE in a loop, INSERT, SELECT (incl. a
//     join), UPDATE, DELETE, USE (which closes the previous store against its ticker), Close.
//     The race detector's happens-before analysis is the oracle for unsynchronised access (S2).
//   - "parked" steps call the same Evaluate* function that ExecQuery dispatches to, with a
//     RelationManager that delegates every method to the real *storage.RelationService and
//     sleeps at chosen points (after the first Fetch / Insert / Update / MarkDeleted, before
//     and after FlushWALBatch), plus a wrapper of the wal.reader interface value that sleeps
//     before a Write and before a Sync inside wal.flush. Each sleep spans several ticks. The
//     data file (data/<db>/tbl) is read before and after each sleep: mtime, size and content
//     hash. flushPages rewrites the header on every tick, so ANY flush that gets through while
//     the statement is parked changes the mtime even when no page is dirty (S1).
//     CREATE TABLE has no call-back inside its bracket and is covered by the racing steps only.
//
// One output line per step.

import (
	"strings"
	"bufio"
	"crypto/sha256"
	"encoding/hex"
	"encoding/json"
	"fmt"
	"os"
	"time"

	"github.com/mk6i/mkdb/sql"
	"github.com/mk6i/mkdb/storage"
)

type c13Cfg struct {
	ParkMs         int    `json:"park_ms"`
	Tables         int    `json:"tables"`
	PaceMs         int    `json:"pace_ms"`
	Rows           int    `json:"rows"`
	IdleAfterUseMs int    `json:"idle_after_use_ms"`
	Tag            string `json:"tag"`
	// replay of a single parked statement kind: "", "insert", "update", "delete", "select"
	Only string `json:"only"`
	// skip the traced and parked phases (small replay of a race between racing statements)
	SkipParked bool `json:"skip_parked"`
}

type c13Park struct {
	Point          string `json:"point"`
	Ms             int    `json:"ms"`
	MtimeChanged   bool   `json:"mtime_changed"`
	SizeChanged    bool   `json:"size_changed"`
	ContentChanged bool   `json:"content_changed"`
}

type c13Step struct {
	Phase string    `json:"phase"`
	Kind  string    `json:"kind"`
	SQL   string    `json:"sql"`
	Err   string    `json:"err"`
	Panic string    `json:"panic,omitempty"`
	Ms    int       `json:"ms"`
	Parks []c13Park `json:"parks,omitempty"`
	// parked/traced steps: the calls the Evaluate* function made on its RelationManager, in order
	Calls []string `json:"calls,omitempty"`
	// idle steps: did the data file's mtime move while the session did nothing (ticker alive)
	IdleMtimeChanged bool `json:"idle_mtime_changed,omitempty"`
}

type c13Snap struct {
	mtime time.Time
	size  int64
	hash  string
}

func c13Snapshot(path string) c13Snap {
	var s c13Snap
	if st, err := os.Stat(path); err == nil {
		s.mtime, s.size = st.ModTime(), st.Size()
	}
	if b, err := os.ReadFile(path); err == nil {
		h := sha256.Sum256(b)
		s.hash = hex.EncodeToString(h[:])
	}
	return s
}

type c13Driver struct {
	cfg   c13Cfg
	sess  *Session
	file  string
	armed map[string]bool
	parks []c13Park
	calls []string
	nins  int
	// state of the data file right after the statement's first change (nil: no change yet)
	first   *c13Snap
	firstAt time.Time
	out     *json.Encoder
}

// changed notes the first change of the current statement.
func (d *c13Driver) changed() {
	if d.first == nil {
		s := c13Snapshot(d.file)
		d.first, d.firstAt = &s, time.Now()
	}
}

// span compares the data file with what it was right after the statement's first change: the whole
// stretch from there to the log append must be free of page and header writes, wherever inside it a
// park let the flusher queue up.
func (d *c13Driver) span(point string) {
	if d.first == nil {
		return
	}
	after := c13Snapshot(d.file)
	d.parks = append(d.parks, c13Park{
		Point: point, Ms: int(time.Since(d.firstAt).Milliseconds()),
		MtimeChanged:   !d.first.mtime.Equal(after.mtime),
		SizeChanged:    d.first.size != after.size,
		ContentChanged: d.first.hash != after.hash,
	})
}

// park sleeps once per armed point and records whether the data file moved meanwhile.
func (d *c13Driver) park(point string) {
	if !d.armed[point] {
		return
	}
	delete(d.armed, point)
	before := c13Snapshot(d.file)
	time.Sleep(time.Duration(d.cfg.ParkMs) * time.Millisecond)
	after := c13Snapshot(d.file)
	d.parks = append(d.parks, c13Park{
		Point: point, Ms: d.cfg.ParkMs,
		MtimeChanged:   !before.mtime.Equal(after.mtime),
		SizeChanged:    before.size != after.size,
		ContentChanged: before.hash != after.hash,
	})
}

// c13RM delegates every method to the real relation service and records the call.
type c13RM struct {
	*storage.RelationService
	d *c13Driver
}

func (r *c13RM) StartTxn() {
	r.RelationService.StartTxn()
	r.d.calls = append(r.d.calls, "StartTxn")
}

func (r *c13RM) EndTxn() {
	r.d.calls = append(r.d.calls, "EndTxn")
	r.RelationService.EndTxn()
}

func (r *c13RM) CreateTable(rel *storage.Relation, name string) error {
	r.d.calls = append(r.d.calls, "CreateTable")
	return r.RelationService.CreateTable(rel, name)
}

func (r *c13RM) Fetch(t string) ([]*storage.Row, []*storage.Field, error) {
	r.d.calls = append(r.d.calls, "Fetch")
	rows, fields, err := r.RelationService.Fetch(t)
	r.d.park("after-fetch")
	return rows, fields, err
}

// the validation passes of INSERT / UPDATE (engine.rowChecker / updateChecker): calls on the relation
// manager like any other, read-only
func (r *c13RM) CheckInsert(t string, cols []string, vals []interface{}) error {
	r.d.calls = append(r.d.calls, "CheckInsert")
	return r.RelationService.CheckInsert(t, cols, vals)
}

func (r *c13RM) CheckUpdate(t string, rowID uint32, cols []string, src []interface{}) error {
	r.d.calls = append(r.d.calls, "CheckUpdate")
	return r.RelationService.CheckUpdate(t, rowID, cols, src)
}

func (r *c13RM) Insert(t string, cols []string, vals []interface{}) (storage.WALBatch, error) {
	r.d.calls = append(r.d.calls, "Insert")
	b, err := r.RelationService.Insert(t, cols, vals)
	r.d.changed()
	r.d.park("after-change")
	r.d.nins++
	// deep inside a long multi-row statement (added by the main session: a statement must stay
	// one critical section however many rows it has)
	r.d.park(fmt.Sprintf("after-change-row-%d", r.d.nins))
	return b, err
}

func (r *c13RM) Update(t string, rowID uint32, cols []string, src []interface{}) (storage.WALBatch, error) {
	r.d.calls = append(r.d.calls, "Update")
	b, err := r.RelationService.Update(t, rowID, cols, src)
	r.d.changed()
	r.d.park("after-change")
	return b, err
}

func (r *c13RM) MarkDeleted(t string, rowID uint32) (storage.WALBatch, error) {
	r.d.calls = append(r.d.calls, "MarkDeleted")
	b, err := r.RelationService.MarkDeleted(t, rowID)
	r.d.changed()
	r.d.park("after-change")
	return b, err
}

func (r *c13RM) FlushWALBatch(b storage.WALBatch) error {
	r.d.calls = append(r.d.calls, "FlushWALBatch")
	r.d.park("before-log-append")
	r.d.span("span:first-change..log-append")
	err := r.RelationService.FlushWALBatch(b)
	r.d.park("after-log-append")
	return err
}

func c13Err(err error) string {
	if err == nil {
		return ""
	}
	m := err.Error()
	if len(m) > 80 {
		m = m[:80]
	}
	return m
}

func (d *c13Driver) emit(s c13Step) error { return d.out.Encode(s) }

// racing step through the real dispatch
func (d *c13Driver) exec(kind, q string) error {
	t0 := time.Now()
	st := c13Step{Phase: "racing", Kind: kind, SQL: q}
	func() {
		defer func() {
			if r := recover(); r != nil {
				st.Panic = fmt.Sprint(r)
			}
		}()
		st.Err = c13Err(d.sess.ExecQuery(q))
	}()
	st.Ms = int(time.Since(t0).Milliseconds())
	if err := d.emit(st); err != nil {
		return err
	}
	time.Sleep(time.Duration(d.cfg.PaceMs) * time.Millisecond)
	return nil
}

// parked step: the Evaluate* function ExecQuery would call, with the parking manager
func (d *c13Driver) execParked(kind, q string, points []string) error {
	t0 := time.Now()
	st := c13Step{Phase: "parked", Kind: kind, SQL: q}
	d.armed = map[string]bool{}
	for _, p := range points {
		d.armed[p] = true
	}
	d.parks = nil
	d.calls = nil
	d.nins = 0
	d.first = nil
	if len(points) == 0 {
		st.Phase = "traced"
	}
	rs := d.sess.RelationService
	rs.VerifC13HookWAL(func(op string) { d.park(op) })
	rm := &c13RM{RelationService: rs, d: d}
	func() {
		defer func() {
			if r := recover(); r != nil {
				st.Panic = fmt.Sprint(r)
			}
		}()
		stmt, err := parseSQL(q)
		if err != nil {
			st.Err = "parse"
			return
		}
		switch s := stmt.(type) {
		case sql.Select:
			_, _, err = EvaluateSelect(s, rm)
		case sql.InsertStatement:
			_, err = EvaluateInsert(s, rm)
		case sql.UpdateStatementSearched:
			err = EvaluateUpdate(s, rm)
		case sql.DeleteStatementSearched:
			_, err = EvaluateDelete(s, rm)
		case sql.CreateTable:
			err = EvaluateCreateTable(s, rm)
		default:
			err = fmt.Errorf("unsupported")
		}
		st.Err = c13Err(err)
	}()
	rs.VerifC13HookWAL(nil)
	d.armed = map[string]bool{}
	st.Parks = d.parks
	st.Calls = d.calls
	st.Ms = int(time.Since(t0).Milliseconds())
	if err := d.emit(st); err != nil {
		return err
	}
	time.Sleep(time.Duration(d.cfg.PaceMs) * time.Millisecond)
	return nil
}

func (d *c13Driver) idle(ms int, why string) error {
	before := c13Snapshot(d.file)
	time.Sleep(time.Duration(ms) * time.Millisecond)
	after := c13Snapshot(d.file)
	return d.emit(c13Step{Phase: "idle", Kind: why, Ms: ms, IdleMtimeChanged: !before.mtime.Equal(after.mtime)})
}

func (d *c13Driver) use(db string) error {
	if err := d.exec("use", "USE "+db); err != nil {
		return err
	}
	d.file = storage.VerifC13DataFile(db)
	if d.cfg.IdleAfterUseMs > 0 {
		return d.idle(d.cfg.IdleAfterUseMs, "after-use")
	}
	return nil
}

var c13AllPoints = map[string][]string{
	"insert": {"after-change", "before-log-append", "wal-write", "wal-sync", "after-log-append"},
	"update": {"after-fetch", "after-change", "before-log-append", "wal-write", "wal-sync", "after-log-append"},
	"delete": {"after-fetch", "after-change", "before-log-append", "wal-write", "wal-sync", "after-log-append"},
	"select": {"after-fetch"},
}

func (d *c13Driver) run() error {
	c := d.cfg
	dbA, dbB := "c13a"+c.Tag, "c13b"+c.Tag
	if err := storage.MakeDataDir(); err != nil {
		return err
	}
	d.sess = &Session{}
	for _, db := range []string{dbA, dbB} {
		if err := d.exec("createdb", "CREATE DATABASE "+db); err != nil {
			return err
		}
	}
	if err := d.use(dbA); err != nil {
		return err
	}
	// CREATE TABLE racing the ticker
	for i := 0; i < c.Tables; i++ {
		if err := d.exec("createtable", fmt.Sprintf("CREATE TABLE t%d (id int, name varchar(20), n int)", i)); err != nil {
			return err
		}
	}
	// rows; the statements are paced so that ticks fall between and inside them
	for i := 0; i < c.Rows; i++ {
		if err := d.exec("insert", fmt.Sprintf("INSERT INTO t0 (id, name, n) VALUES (%d, 'r%d', %d), (%d, 's%d', %d)", 2*i, i, i, 2*i+1, i, i)); err != nil {
			return err
		}
		if err := d.exec("insert", fmt.Sprintf("INSERT INTO t1 (id, name, n) VALUES (%d, 'q%d', %d)", i, i, i%3)); err != nil {
			return err
		}
		if i%3 == 0 {
			if err := d.exec("select", "SELECT id, name FROM t0 WHERE n >= 0"); err != nil {
				return err
			}
			if err := d.exec("select", "SELECT a.id, b.name FROM t0 a JOIN t1 b ON a.n = b.id"); err != nil {
				return err
			}
			if err := d.exec("update", fmt.Sprintf("UPDATE t0 SET name = 'u%d' WHERE n = %d", i, i)); err != nil {
				return err
			}
			if err := d.exec("delete", fmt.Sprintf("DELETE FROM t1 WHERE id = %d", i)); err != nil {
				return err
			}
		}
	}
	if err := d.idle(250, "ticker-alive"); err != nil {
		return err
	}
	// traced statements (no sleeps): the call sequence of the real Evaluate* functions on normal
	// and on failing paths, compared with the extracted protocols inside Coq
	if c.Only == "" && !c.SkipParked {
		traced := []struct{ kind, q string }{
			{"insert", "INSERT INTO t3 (id, name, n) VALUES (1, 'a', 1), (2, 'b', 2), (3, 'c', 3)"},
			{"insert", "INSERT INTO t3 (id, name, n) VALUES (4, 'd', 4), ('bad', 'e', 5), (6, 'f', 6)"},
			{"insert", "INSERT INTO nosuch (id) VALUES (1)"},
			{"select", "SELECT id FROM t3"},
			{"select", "SELECT id FROM nosuch"},
			{"select", "SELECT a.id FROM t3 a JOIN t0 b ON a.id = b.id JOIN t1 c ON c.id = a.id"},
			{"select", "SELECT a.id FROM t3 a JOIN nosuch b ON a.id = b.id"},
			{"select", "SELECT nocolumn FROM t3"},
			{"update", "UPDATE t3 SET name = 'x' WHERE id >= 2"},
			{"update", "UPDATE t3 SET name = 'x' WHERE id = 99"},
			{"update", "UPDATE nosuch SET name = 'x'"},
			{"update", "UPDATE t3 SET name = 'x' WHERE nocolumn = 1"},
			{"update", "UPDATE t3 SET n = 'notanumber' WHERE id = 1"},
			{"delete", "DELETE FROM t3 WHERE id = 1"},
			{"delete", "DELETE FROM t3 WHERE id = 99"},
			{"delete", "DELETE FROM nosuch"},
			{"delete", "DELETE FROM t3 WHERE nocolumn = 1"},
			{"delete", "DELETE FROM t3"},
			{"createtable", "CREATE TABLE traced1 (id int)"},
			{"createtable", "CREATE TABLE traced1 (id int)"},
		}
		for _, p := range traced {
			if err := d.execParked(p.kind, p.q, nil); err != nil {
				return err
			}
		}
	}
	// parked statements
	parked := []struct{ kind, q string }{
		{"insert", "INSERT INTO t2 (id, name, n) VALUES (1, 'a', 1), (2, 'b', 2)"},
		{"update", "UPDATE t2 SET name = 'z' WHERE id = 1"},
		{"select", "SELECT a.id, b.name FROM t2 a JOIN t0 b ON a.id = b.id"},
		{"delete", "DELETE FROM t2 WHERE id = 2"},
	}
	if !c.SkipParked && (c.Only == "" || c.Only == "insert") {
		// one long INSERT (260 rows), parked after its 3rd, 100th and 200th row and before its log append;
		// the span from its first change to its log append is watched as a whole
		var sb strings.Builder
		sb.WriteString("INSERT INTO t2 (id, name, n) VALUES ")
		for i := 0; i < 260; i++ {
			if i > 0 {
				sb.WriteString(", ")
			}
			fmt.Fprintf(&sb, "(%d, 'r', %d)", 1000+i, i)
		}
		if err := d.execParked("insert", sb.String(), []string{"after-change-row-3", "after-change-row-100", "after-change-row-200", "before-log-append"}); err != nil {
			return err
		}
	}
	for _, p := range parked {
		if c.SkipParked {
			break
		}
		if c.Only != "" && c.Only != p.kind && !(p.kind == "insert") {
			continue
		}
		pts := c13AllPoints[p.kind]
		if c.Only != "" && c.Only != p.kind {
			pts = nil // the insert is still needed to have rows, but is not parked
		}
		if err := d.execParked(p.kind, p.q, pts); err != nil {
			return err
		}
	}
	// CREATE TABLE again now that the cache holds dirty and clean pages
	for i := 0; i < c.Tables/3; i++ {
		if err := d.exec("createtable", fmt.Sprintf("CREATE TABLE u%d (id int, flag boolean)", i)); err != nil {
			return err
		}
	}
	// USE: the previous store is closed while its ticker is running
	if err := d.use(dbB); err != nil {
		return err
	}
	if err := d.exec("createtable", "CREATE TABLE other (id int, name varchar(10))"); err != nil {
		return err
	}
	if err := d.exec("insert", "INSERT INTO other (id, name) VALUES (1, 'x')"); err != nil {
		return err
	}
	if err := d.use(dbA); err != nil {
		return err
	}
	if err := d.exec("select", "SELECT id, name FROM t2"); err != nil {
		return err
	}
	if err := d.exec("delete", "DELETE FROM t0 WHERE n = 1"); err != nil {
		return err
	}
	if err := d.idle(150, "before-close"); err != nil {
		return err
	}
	t0 := time.Now()
	err := d.sess.Close()
	return d.emit(c13Step{Phase: "racing", Kind: "close", Err: c13Err(err), Ms: int(time.Since(t0).Milliseconds())})
}

func init() {
	verifModes["race"] = func(in *bufio.Scanner, out *json.Encoder) error {
		// the engine prints result tables and progress on stdout; keep the log small
		if devnull, err := os.OpenFile(os.DevNull, os.O_WRONLY, 0); err == nil {
			os.Stdout = devnull
		}
		for in.Scan() {
			var c c13Cfg
			if err := json.Unmarshal(in.Bytes(), &c); err != nil {
				return err
			}
			if c.ParkMs == 0 {
				c.ParkMs = 350
			}
			d := &c13Driver{cfg: c, out: out, armed: map[string]bool{}}
			if err := d.run(); err != nil {
				return err
			}
		}
		return in.Err()
	}
}
