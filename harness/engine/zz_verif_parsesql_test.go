//go:build verif

package engine

import (
	"bufio"
	"encoding/json"
	"fmt"
	"time"
)

// mode "parsesql" (C09/C10): runs the real engine.parseSQL on a text under recover() with a 2 s
// watchdog and reports the result as Go-syntax text (%#v), so that tools/props/c09.py can check
// that the sql-package driver's copy of parseSQL's loop is still what parseSQL does.
// in {"text": <latin-1 text>}   out {"k":"ok","repr":...} | {"k":"err","msg":...} | {"k":"panic"} | {"k":"timeout"}

func psToL1(s string) string {
	b := []byte(s)
	r := make([]rune, len(b))
	for i, c := range b {
		r[i] = rune(c)
	}
	return string(r)
}

func psFromL1(s string) string {
	b := make([]byte, 0, len(s))
	for _, r := range s {
		b = append(b, byte(r))
	}
	return string(b)
}

func parseSQLGuarded(text string) (res map[string]interface{}) {
	defer func() {
		if r := recover(); r != nil {
			res = map[string]interface{}{"k": "panic", "msg": fmt.Sprint(r)}
		}
	}()
	stmt, err := parseSQL(text)
	if err != nil {
		return map[string]interface{}{"k": "err", "msg": psToL1(err.Error())}
	}
	return map[string]interface{}{"k": "ok", "repr": psToL1(fmt.Sprintf("%#v", stmt))}
}

func init() {
	verifModes["parsesql"] = func(in *bufio.Scanner, out *json.Encoder) error {
		for in.Scan() {
			var c struct {
				Text string `json:"text"`
			}
			if err := json.Unmarshal(in.Bytes(), &c); err != nil {
				return err
			}
			text := psFromL1(c.Text)
			ch := make(chan map[string]interface{}, 1)
			go func() { ch <- parseSQLGuarded(text) }()
			var res map[string]interface{}
			select {
			case res = <-ch:
			case <-time.After(5 * time.Second):
				res = map[string]interface{}{"k": "timeout"}
			}
			if err := out.Encode(res); err != nil {
				return err
			}
		}
		return in.Err()
	}
}
