//go:build verif

package engine

// mode "session": one engine.Session driven through ExecQuery with the REAL OpenRelation (100 ms
// flush timer on), over several databases, with pauses and restarts.

import (
	"bufio"
	"encoding/json"
	"errors"
	"os"
	"time"

	"github.com/mk6i/mkdb/storage"
)

type sessEvent struct {
	T      string   `json:"t"` // sql | tick | restart | read
	Q      string   `json:"q"`
	Clean  bool     `json:"clean"`
	Tables []string `json:"tables"`
}

type sessOut struct {
	T      string      `json:"t"`
	Res    string      `json:"res"`
	Show   []string    `json:"show,omitempty"`
	Tables []histTable `json:"tables,omitempty"`
	NoDB   bool        `json:"nodb,omitempty"`
}

func sessErrClass(err error) string {
	if err == nil {
		return "ok"
	}
	if err.Error() == "please select a database" {
		return "NoDB"
	}
	return histErrClass(err)
}

func sessRunCase(evs []sessEvent) ([]sessOut, error) {
	root, err := os.MkdirTemp("", "verif_sess_")
	if err != nil {
		return nil, err
	}
	defer os.RemoveAll(root)
	oldwd, _ := os.Getwd()
	defer os.Chdir(oldwd)
	if err := os.Chdir(root); err != nil {
		return nil, err
	}
	if err := storage.InitStorage(); err != nil {
		return nil, err
	}
	sess := &Session{}
	outs := []sessOut{}
	for _, ev := range evs {
		o := sessOut{T: ev.T}
		switch ev.T {
		case "sql":
			// SHOW DATABASES prints; take the listing from storage.ShowDB after the call
			o.Res = histGuard(func() error {
				var err error
				histQuiet(func() { err = sess.ExecQuery(ev.Q) })
				return errClassWrap(err)
			})
			if len(ev.Q) >= 4 && (ev.Q[:4] == "SHOW" || ev.Q[:4] == "show") && o.Res == "ok" {
				rows, _, err := storage.ShowDB()
				if err != nil {
					o.Res = "Other:" + err.Error()
				} else {
					o.Show = []string{}
					for _, r := range rows {
						o.Show = append(o.Show, r.Vals[0].(string))
					}
				}
			}
		case "tick":
			time.Sleep(130 * time.Millisecond)
			o.Res = "ok"
		case "restart":
			if ev.Clean {
				o.Res = histGuard(func() error { return sess.Close() })
			} else {
				if sess.RelationService != nil {
					sess.RelationService.VerifAbandon()
				}
				o.Res = "ok"
			}
			if o.Res == "ok" {
				o.Res = histGuard(func() error {
					var err error
					histQuiet(func() { err = storage.InitStorage() })
					return err
				})
			}
			sess = &Session{}
		case "read":
			if sess.RelationService == nil {
				o.NoDB = true
				o.Res = "ok"
			} else {
				o.Res = "ok"
				o.Tables = histReadTables(sess.RelationService, ev.Tables)
			}
		}
		outs = append(outs, o)
		if len(o.Res) >= 5 && o.Res[:5] == "panic" {
			break
		}
		if o.Res == "timeout" {
			// the statement never returned: its goroutine still holds whatever it holds; nothing more can be
			// asked of this session (and closing or abandoning it could block for ever too)
			return outs, nil
		}
	}
	if sess.RelationService != nil {
		sess.RelationService.VerifAbandon()
	}
	return outs, nil
}

type classedErr struct{ cls string }

func (c classedErr) Error() string { return c.cls }

// errClassWrap keeps the "please select a database" text visible to sessErrClass
func errClassWrap(err error) error {
	if err != nil && err.Error() == "please select a database" {
		return errNoDB
	}
	return err
}

var errNoDB = errors.New("NoDBSelected")

func init() {
	verifModes["session"] = func(in *bufio.Scanner, out *json.Encoder) error {
		for in.Scan() {
			var c struct {
				Events []sessEvent `json:"events"`
			}
			if err := json.Unmarshal(in.Bytes(), &c); err != nil {
				return err
			}
			outs, err := sessRunCase(c.Events)
			if err != nil {
				return err
			}
			if err := out.Encode(map[string]interface{}{"events": outs}); err != nil {
				return err
			}
		}
		return in.Err()
	}
}
