//go:build verif

package storage

import (
	"bufio"
	"bytes"
	"encoding/json"
	"fmt"
)

// mode "tuple": Tuple.Encode of typed values under a schema, bytes + decode of those bytes
type tupleCase struct {
	Schema []struct {
		Name string `json:"name"`
		Type string `json:"type"`
	} `json:"schema"`
	Vals []interface{} `json:"vals"`
}

func tupleGoVal(v interface{}) interface{} {
	if v == nil {
		return nil
	}
	a := v.([]interface{})
	switch a[0].(string) {
	case "i":
		var n int64
		fmt.Sscanf(a[1].(string), "%d", &n)
		return n
	case "b":
		return a[1].(bool)
	case "s":
		bs := a[1].([]interface{})
		b := make([]byte, len(bs))
		for i, x := range bs {
			b[i] = byte(x.(float64))
		}
		return string(b)
	}
	return nil
}

func tupleTyped(v interface{}) interface{} {
	switch x := v.(type) {
	case nil:
		return nil
	case int64:
		return []interface{}{"i", fmt.Sprintf("%d", x)}
	case string:
		b := make([]int, len(x))
		for i := 0; i < len(x); i++ {
			b[i] = int(x[i])
		}
		return []interface{}{"s", b}
	case bool:
		return []interface{}{"b", x}
	}
	return []interface{}{"?", fmt.Sprintf("%v", v)}
}

func init() {
	verifModes["tuple"] = func(in *bufio.Scanner, out *json.Encoder) error {
		types := map[string]DataType{"int": TypeInt, "varchar": TypeVarchar, "boolean": TypeBoolean, "bigint": TypeBigInt}
		for in.Scan() {
			var c tupleCase
			if err := json.Unmarshal(in.Bytes(), &c); err != nil {
				return err
			}
			rel := &Relation{}
			vals := map[string]interface{}{}
			for i, f := range c.Schema {
				rel.Fields = append(rel.Fields, FieldDef{Name: f.Name, DataType: types[f.Type]})
				if v := tupleGoVal(c.Vals[i]); v != nil {
					vals[f.Name] = v
				}
			}
			res := map[string]interface{}{}
			func() {
				defer func() {
					if r := recover(); r != nil {
						res["err"] = fmt.Sprintf("panic:%v", r)
					}
				}()
				t := Tuple{Relation: rel, Vals: vals}
				buf, err := t.Encode()
				res["err"] = VerifErrClass(err)
				if err != nil {
					return
				}
				bs := make([]int, buf.Len())
				for i, b := range buf.Bytes() {
					bs[i] = int(b)
				}
				res["bytes"] = bs
				d := Tuple{Relation: rel, Vals: map[string]interface{}{}}
				if err := d.Decode(bytes.NewBuffer(buf.Bytes())); err != nil {
					res["decoded"] = nil
					return
				}
				dec := []interface{}{}
				for _, f := range c.Schema {
					dec = append(dec, tupleTyped(d.Vals[f.Name]))
				}
				res["decoded"] = dec
			}()
			if err := out.Encode(res); err != nil {
				return err
			}
		}
		return in.Err()
	}
}
