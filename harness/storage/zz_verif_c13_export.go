//go:build verif

package storage

// C13 observation points for the driver in package engine (harness/engine/zz_verif_race_test.go).
// Overlaid onto /repo/storage only when building with -tags verif; add-only, nothing in /repo
// is edited. The hook wraps the interface value wal.reader (type readWriteSyncCloser): the
// callback runs on the session goroutine immediately before every Write and Sync of wal.flush,
// i.e. while the statement is inside its log append.

type verifC13Wal struct {
	inner readWriteSyncCloser
	hook  func(op string)
}

func (w *verifC13Wal) Read(p []byte) (int, error) { return w.inner.Read(p) }
func (w *verifC13Wal) Close() error               { return w.inner.Close() }
func (w *verifC13Wal) Write(p []byte) (int, error) {
	if w.hook != nil {
		w.hook("wal-write")
	}
	return w.inner.Write(p)
}
func (w *verifC13Wal) Sync() error {
	if w.hook != nil {
		w.hook("wal-sync")
	}
	return w.inner.Sync()
}

// VerifC13HookWAL installs (or replaces) the callback on this relation service's log.
func (rs *RelationService) VerifC13HookWAL(hook func(op string)) {
	if ww, ok := rs.wal.reader.(*verifC13Wal); ok {
		ww.hook = hook
		return
	}
	rs.wal.reader = &verifC13Wal{inner: rs.wal.reader, hook: hook}
}

// VerifC13DataFile is the path of the data file of a database (data/<db>/tbl).
func VerifC13DataFile(db string) string {
	p, _, _ := dbFilePath(db)
	return p
}

// VerifC13FlushIntervalMs is the period of the real flush ticker.
func VerifC13FlushIntervalMs() int { return int(pageFlushInterval.Milliseconds()) }
