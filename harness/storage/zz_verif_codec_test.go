//go:build verif

package storage

import (
	"bufio"
	"bytes"
	"encoding/hex"
	"encoding/json"
	"errors"
	"fmt"
	"io"
	"os"
	"path/filepath"
	"strings"
)

// ---------------------------------------------------------------------------------------------
// mode "pagecodec"
//
// Input line:
//   {"node":{"leaf":true,"off":4096,"lsn":7,"hasL":false,"hasR":true,"lsib":0,"rsib":8192,"right":0,
//            "offsets":[1,0],"cells":[{"k":5,"d":false,"v":"6162"},{"k":2,"d":true,"v":""}]},
//    "raw":"<hex>"           (instead of encoding "node": these bytes are the page; node.leaf still
//                             selects the decoder for the direct decode)
//    "patch":[[pos,byte],..] (applied to the encoded bytes before they are decoded / written)
//    "trunc":n               (keep only the first n bytes; -1 or absent = keep all)
//    "foff":4096}            (file position for the update/WriteAt -> cold fetch round)
// Output line:
//   {"enc":{"st":"ok","hex":".."} | {"st":"panic"} | {"st":"err"} | {"st":"none"},
//    "dec":  <decode of the bytes by btreeNode.decode with isLeaf = node.leaf>,
//    "fetch":<fileStore.update (or WriteAt of the patched bytes) then fetch by a new fileStore>}
//   decode result: {"st":"ok","node":{...,"cells":[{"k","d","v","sz"} | null]}} | {"st":"err","e":"eof|badtype|other"}
//                  | {"st":"panic","msg":..} | {"st":"skip"}
// ---------------------------------------------------------------------------------------------

type pcCell struct {
	K  uint32 `json:"k"`
	D  bool   `json:"d"`
	V  string `json:"v"`
	O  uint64 `json:"o"`
	Sz uint32 `json:"sz"`
}

type pcNode struct {
	Leaf    bool      `json:"leaf"`
	Off     uint64    `json:"off"`
	LSN     uint64    `json:"lsn"`
	HasL    bool      `json:"hasL"`
	HasR    bool      `json:"hasR"`
	LSib    uint64    `json:"lsib"`
	RSib    uint64    `json:"rsib"`
	Right   uint64    `json:"right"`
	Offsets []uint16  `json:"offsets"`
	Cells   []*pcCell `json:"cells"`
}

type pcCase struct {
	Node  pcNode   `json:"node"`
	Raw   *string  `json:"raw"`
	Patch [][2]int `json:"patch"`
	Trunc *int     `json:"trunc"`
	Foff  uint64   `json:"foff"`
}

type pcEnc struct {
	St  string `json:"st"`
	Hex string `json:"hex,omitempty"`
	Msg string `json:"msg,omitempty"`
}

type pcDec struct {
	St   string  `json:"st"`
	E    string  `json:"e,omitempty"`
	Msg  string  `json:"msg,omitempty"`
	Node *pcNode `json:"node,omitempty"`
}

func pcBuild(j *pcNode) (*btreeNode, error) {
	n := &btreeNode{
		fileOffset: j.Off, lastLSN: j.LSN, isLeaf: j.Leaf, dirty: true,
		hasLSib: j.HasL, hasRSib: j.HasR, lSibFileOffset: j.LSib, rSibFileOffset: j.RSib,
		rightOffset: j.Right,
	}
	n.offsets = append(n.offsets, j.Offsets...)
	for _, c := range j.Cells {
		if j.Leaf {
			v, err := hex.DecodeString(c.V)
			if err != nil {
				return nil, err
			}
			n.leafCells = append(n.leafCells, &leafCell{key: c.K, valueSize: uint32(len(v)), valueBytes: v, deleted: c.D})
		} else {
			n.internalCells = append(n.internalCells, &internalCell{key: c.K, fileOffset: c.O})
		}
	}
	return n, nil
}

func pcDump(n *btreeNode) *pcNode {
	j := &pcNode{
		Leaf: n.isLeaf, Off: n.fileOffset, LSN: n.lastLSN, HasL: n.hasLSib, HasR: n.hasRSib,
		LSib: n.lSibFileOffset, RSib: n.rSibFileOffset, Right: n.rightOffset,
		Offsets: []uint16{}, Cells: []*pcCell{},
	}
	j.Offsets = append(j.Offsets, n.offsets...)
	if n.isLeaf {
		for _, c := range n.leafCells {
			if c == nil {
				j.Cells = append(j.Cells, nil)
				continue
			}
			j.Cells = append(j.Cells, &pcCell{K: c.key, D: c.deleted, V: hex.EncodeToString(c.valueBytes), Sz: c.valueSize})
		}
	} else {
		for _, c := range n.internalCells {
			if c == nil {
				j.Cells = append(j.Cells, nil)
				continue
			}
			j.Cells = append(j.Cells, &pcCell{K: c.key, O: c.fileOffset})
		}
	}
	return j
}

func codecErrClass(err error) string {
	switch {
	case errors.Is(err, io.EOF), errors.Is(err, io.ErrUnexpectedEOF):
		return "eof"
	case strings.HasPrefix(err.Error(), "decoding error: expected node type"):
		return "badtype"
	}
	return "other"
}

func pcGuard(f func() pcDec) (res pcDec) {
	defer func() {
		if r := recover(); r != nil {
			res = pcDec{St: "panic", Msg: fmt.Sprint(r)}
		}
	}()
	return f()
}

func pcRun(c *pcCase, dir string, seq int) (map[string]interface{}, error) {
	out := map[string]interface{}{}
	node, err := pcBuild(&c.Node)
	if err != nil {
		return nil, err
	}
	var page []byte
	enc := pcEnc{St: "none"}
	if c.Raw != nil {
		page, err = hex.DecodeString(*c.Raw)
		if err != nil {
			return nil, err
		}
	} else {
		func() {
			defer func() {
				if r := recover(); r != nil {
					enc = pcEnc{St: "panic", Msg: fmt.Sprint(r)}
				}
			}()
			buf, err := node.encode()
			if err != nil {
				enc = pcEnc{St: "err", Msg: err.Error()}
				return
			}
			page = append([]byte{}, buf.Bytes()...)
			enc = pcEnc{St: "ok", Hex: hex.EncodeToString(page)}
		}()
	}
	out["enc"] = enc
	if enc.St != "ok" && enc.St != "none" {
		out["dec"] = pcDec{St: "skip"}
		out["fetch"] = pcDec{St: "skip"}
		return out, nil
	}
	edited := len(c.Patch) > 0 || (c.Trunc != nil && *c.Trunc >= 0) || c.Raw != nil
	for _, p := range c.Patch {
		if p[0] >= 0 && p[0] < len(page) {
			page[p[0]] = byte(p[1])
		}
	}
	if c.Trunc != nil && *c.Trunc >= 0 && *c.Trunc < len(page) {
		page = page[:*c.Trunc]
	}

	// direct decode with the declared kind
	out["dec"] = pcGuard(func() pcDec {
		n := &btreeNode{isLeaf: c.Node.Leaf}
		if err := n.decode(bytes.NewBuffer(append([]byte{}, page...))); err != nil {
			return pcDec{St: "err", E: codecErrClass(err), Msg: err.Error()}
		}
		return pcDec{St: "ok", Node: pcDump(n)}
	})

	// through the file: fileStore.update (real encode + WriteAt) or WriteAt of the edited
	// bytes, then a new fileStore (empty cache) fetches the page
	if c.Foff >= 1<<32 {
		out["fetch"] = pcDec{St: "skip"}
		return out, nil
	}
	path := filepath.Join(dir, fmt.Sprintf("pg%d", seq))
	defer os.Remove(path)
	wr := pcGuard(func() pcDec {
		fs1, err := newFileStore(path, false)
		if err != nil {
			return pcDec{St: "err", E: "other", Msg: err.Error()}
		}
		defer fs1.file.Close()
		if edited {
			if _, err := fs1.file.WriteAt(page, int64(c.Foff)); err != nil {
				return pcDec{St: "err", E: "other", Msg: err.Error()}
			}
		} else {
			if node.fileOffset != c.Foff {
				return pcDec{St: "err", E: "other", Msg: "foff differs from node offset"}
			}
			if seq%2 == 0 {
				// the page is usually REwritten in place: an older image of it (no zero byte anywhere) is
				// in the file already, and every byte of it has to go
				old := bytes.Repeat([]byte{0xAB}, int(pageSize))
				if _, err := fs1.file.WriteAt(old, int64(c.Foff)); err != nil {
					return pcDec{St: "err", E: "other", Msg: err.Error()}
				}
			}
			if err := fs1.update(node); err != nil {
				return pcDec{St: "err", E: "other", Msg: err.Error()}
			}
		}
		return pcDec{St: "ok"}
	})
	if wr.St != "ok" {
		wr.St = "skip"
		out["fetch"] = wr
		return out, nil
	}
	out["fetch"] = pcGuard(func() pcDec {
		fs2, err := newFileStore(path, false)
		if err != nil {
			return pcDec{St: "skip", Msg: err.Error()}
		}
		defer fs2.file.Close()
		n, err := fs2.fetch(c.Foff)
		if err != nil {
			return pcDec{St: "err", E: codecErrClass(err), Msg: err.Error()}
		}
		// a second fetch must come from the cache and be the same object
		if n2, err := fs2.fetch(n.fileOffset); c.Foff == n.fileOffset && (err != nil || n2 != n) {
			return pcDec{St: "err", E: "other", Msg: "second fetch did not hit the cache"}
		}
		return pcDec{St: "ok", Node: pcDump(n)}
	})
	return out, nil
}

// header round: {"hdr":[lastKey,pageTableRoot,nextFree,nextLSN]} -> {"hex":"..","back":[..]}
type hdrCase struct {
	Hdr *[4]uint64 `json:"hdr"`
}

func hdrRun(h [4]uint64, dir string, seq int) (map[string]interface{}, error) {
	path := filepath.Join(dir, fmt.Sprintf("hd%d", seq))
	defer os.Remove(path)
	fs1, err := newFileStore(path, false)
	if err != nil {
		return nil, err
	}
	fs1.lastKey, fs1.pageTableRoot, fs1.nextFreeOffset, fs1._nextLSN = uint32(h[0]), h[1], h[2], h[3]
	if err := fs1.save(); err != nil {
		return nil, err
	}
	fs1.file.Close()
	raw, err := os.ReadFile(path)
	if err != nil {
		return nil, err
	}
	fs2, err := newFileStore(path, false)
	if err != nil {
		return nil, err
	}
	defer fs2.file.Close()
	if err := fs2.open(); err != nil {
		return map[string]interface{}{"hex": hex.EncodeToString(raw), "st": "err"}, nil
	}
	return map[string]interface{}{"hex": hex.EncodeToString(raw), "st": "ok",
		"back": [4]uint64{uint64(fs2.lastKey), fs2.pageTableRoot, fs2.nextFreeOffset, fs2._nextLSN}}, nil
}

func init() {
	verifModes["pagecodec"] = func(in *bufio.Scanner, out *json.Encoder) error {
		dir, err := os.MkdirTemp("", "verif_pc_")
		if err != nil {
			return err
		}
		defer os.RemoveAll(dir)
		seq := 0
		for in.Scan() {
			seq++
			var h hdrCase
			if err := json.Unmarshal(in.Bytes(), &h); err == nil && h.Hdr != nil {
				res, err := hdrRun(*h.Hdr, dir, seq)
				if err != nil {
					return err
				}
				if err := out.Encode(res); err != nil {
					return err
				}
				continue
			}
			var c pcCase
			if err := json.Unmarshal(in.Bytes(), &c); err != nil {
				return err
			}
			res, err := pcRun(&c, dir, seq)
			if err != nil {
				return err
			}
			if err := out.Encode(res); err != nil {
				return err
			}
		}
		return in.Err()
	}
}

// ---------------------------------------------------------------------------------------------
// mode "walcodec"
//
// Input line:
//   {"recs":[{"op":0,"lsn":1,"page":4096,"cell":7,"val":"6162"},..], "sync":true,
//    "cuts":[0,3,29,..]   (for each: the log is the first `cut` bytes wal.flush wrote, then "extra")
//    "extra":"<hex>", "chunk":3 (the reader hands out at most this many bytes per Read; 0 = all)}
// Output line:
//   {"calls":[["W","<hex>"],["S"],..], "flush":"ok|err|panic",
//    "reads":[{"cut":k,"st":"ok|err|panic","e":"eof|other","valid":n,"recs":[{op,lsn,page,cell,val}..]}]}
// ---------------------------------------------------------------------------------------------

type wcRec struct {
	Op   uint8  `json:"op"`
	LSN  uint64 `json:"lsn"`
	Page uint64 `json:"page"`
	Cell uint32 `json:"cell"`
	Val  string `json:"val"`
}

type wcCase struct {
	Recs  []wcRec `json:"recs"`
	Sync  bool    `json:"sync"`
	Cuts  []int   `json:"cuts"`
	Extra string  `json:"extra"`
	Chunk int     `json:"chunk"`
}

type wcRead struct {
	Cut   int     `json:"cut"`
	St    string  `json:"st"`
	E     string  `json:"e,omitempty"`
	Msg   string  `json:"msg,omitempty"`
	Valid int64   `json:"valid"`
	Recs  []wcRec `json:"recs"`
}

// verifLog is an in-memory log file: Write appends (O_APPEND), Read hands out the content
// from the start in pieces of at most chunk bytes.
type verifLog struct {
	buf   []byte
	calls [][]string
	pos   int
	chunk int
}

func (l *verifLog) Write(p []byte) (int, error) {
	l.buf = append(l.buf, p...)
	l.calls = append(l.calls, []string{"W", hex.EncodeToString(p)})
	return len(p), nil
}

func (l *verifLog) Sync() error {
	l.calls = append(l.calls, []string{"S"})
	return nil
}

func (l *verifLog) Close() error { return nil }

func (l *verifLog) Read(p []byte) (int, error) {
	if l.pos >= len(l.buf) {
		return 0, io.EOF
	}
	n := len(p)
	if l.chunk > 0 && n > l.chunk {
		n = l.chunk
	}
	if n > len(l.buf)-l.pos {
		n = len(l.buf) - l.pos
	}
	copy(p, l.buf[l.pos:l.pos+n])
	l.pos += n
	return n, nil
}

func wcRun(c *wcCase) (map[string]interface{}, error) {
	var batch WALBatch
	for _, r := range c.Recs {
		v, err := hex.DecodeString(r.Val)
		if err != nil {
			return nil, err
		}
		batch = append(batch, &WALEntry{WALOp: WALOp(r.Op), LSN: r.LSN, pageID: r.Page, cellID: r.Cell, val: v})
	}
	extra, err := hex.DecodeString(c.Extra)
	if err != nil {
		return nil, err
	}
	out := map[string]interface{}{}
	lg := &verifLog{calls: [][]string{}}
	fl := "ok"
	func() {
		defer func() {
			if r := recover(); r != nil {
				fl = "panic"
			}
		}()
		w := &wal{reader: lg, forceSync: c.Sync}
		if err := w.flush(batch); err != nil {
			fl = "err"
		}
	}()
	out["flush"] = fl
	out["calls"] = lg.calls
	reads := []wcRead{}
	for _, cut := range c.Cuts {
		if cut < 0 || cut > len(lg.buf) {
			cut = len(lg.buf)
		}
		data := append(append([]byte{}, lg.buf[:cut]...), extra...)
		rd := wcRead{Cut: cut, St: "ok", Recs: []wcRec{}}
		func() {
			w := &wal{reader: &verifLog{buf: data, chunk: c.Chunk}, validLen: -1}
			defer func() {
				if r := recover(); r != nil {
					rd.St, rd.Msg = "panic", fmt.Sprint(r)
				}
				rd.Valid = w.validLen
			}()
			ret, err := w.read()
			if err != nil {
				rd.St, rd.E, rd.Msg = "err", codecErrClass(err), err.Error()
			}
			for _, e := range ret {
				rd.Recs = append(rd.Recs, wcRec{Op: uint8(e.WALOp), LSN: e.LSN, Page: e.pageID, Cell: e.cellID, Val: hex.EncodeToString(e.val)})
			}
		}()
		reads = append(reads, rd)
	}
	out["reads"] = reads
	return out, nil
}

func init() {
	verifModes["walcodec"] = func(in *bufio.Scanner, out *json.Encoder) error {
		for in.Scan() {
			var c wcCase
			if err := json.Unmarshal(in.Bytes(), &c); err != nil {
				return err
			}
			res, err := wcRun(&c)
			if err != nil {
				return err
			}
			if err := out.Encode(res); err != nil {
				return err
			}
		}
		return in.Err()
	}
}
