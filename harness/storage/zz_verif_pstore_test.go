//go:build verif

package storage

import (
	"bufio"
	"encoding/json"
	"os"
)

// mode "pstore": fileStore.fetch / append / flushPages with a small LRU, and changes made
// through the node pointers the caller holds (C16). Keys are page numbers (offset = k*pageSize),
// the content of a page is its lSibFileOffset field.
type pstoreCase struct {
	Cap int     `json:"cap"`
	Ops [][]int `json:"ops"` // [0,k] fetch | [1,k,c] alloc | [2,k,c] modify the object last obtained for page k | [3] flush
}

func init() {
	verifModes["pstore"] = func(in *bufio.Scanner, out *json.Encoder) error {
		for in.Scan() {
			var c pstoreCase
			if err := json.Unmarshal(in.Bytes(), &c); err != nil {
				return err
			}
			f, err := os.CreateTemp("", "verif_ps_")
			if err != nil {
				return err
			}
			path := f.Name()
			f.Close()
			fs, err := newFileStore(path, false)
			if err != nil {
				return err
			}
			fs.cache = NewLRU(c.Cap)
			fs.nextFreeOffset = pageSize
			ids := map[*btreeNode]int{}
			objs := map[int]*btreeNode{}
			held := map[int]*btreeNode{}
			next := 1
			idOf := func(n *btreeNode) int {
				if id, ok := ids[n]; ok {
					return id
				}
				ids[n] = next
				objs[next] = n
				next++
				return ids[n]
			}
			res := [][]int{}
			for _, op := range c.Ops {
				switch op[0] {
				case 0:
					n, err := fs.fetch(uint64(op[1]) * pageSize)
					if err != nil {
						res = append(res, []int{-1})
					} else {
						held[op[1]] = n
						res = append(res, []int{idOf(n), int(n.lSibFileOffset)})
					}
				case 1:
					n := &btreeNode{isLeaf: true, lSibFileOffset: uint64(op[2])}
					if err := fs.append(n); err != nil {
						res = append(res, []int{-1})
					} else {
						held[op[1]] = n
						res = append(res, []int{idOf(n), op[2], int(n.fileOffset / pageSize)})
					}
				case 2:
					if n, ok := held[op[1]]; ok {
						n.lSibFileOffset = uint64(op[2])
						n.markDirty(1)
					}
					res = append(res, []int{})
				case 3:
					if err := fs.flushPages(); err != nil {
						res = append(res, []int{-2})
					} else {
						// the resident list, front first: reveals in which order the dirty pages
						// were visited (each visit moves the page to the front)
						order := []int{}
						for e := fs.cache.list.Front(); e != nil; e = e.Next() {
							order = append(order, int(e.Value.(*cacheEntry).key.(uint64)/pageSize))
						}
						res = append(res, order)
					}
				}
			}
			fs.file.Close()
			os.Remove(path)
			if err := out.Encode(map[string]interface{}{"res": res}); err != nil {
				return err
			}
		}
		return in.Err()
	}
}
