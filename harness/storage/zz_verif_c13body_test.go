//go:build verif

package storage

// mode "c13body" (C13): with the flush timer off, the part of a statement that runs under the shared
// lock must not write the data file at all - only flushPages (under the exclusive lock) may. For
// CREATE TABLE the body is createTable (CreateTable = createTable, then flushPages); for INSERT /
// UPDATE / DELETE it is Insert / Update / MarkDeleted. The driver creates `tables` tables (the 7th
// splits the root of the page table, which moves the page-table root pointer in the header), grows
// one table past leaf and root splits, updates and deletes, and compares the data file (size and
// SHA-256) before and after every body; then it flushes as the statement itself would.
//
// With "cache" > 0 the page cache holds that many pages only and "flush_every" = 0 never flushes
// between the rows of the growing table: the dirty set of the shared-lock part grows until the cache
// has no clean page left to evict; the body must then fail (ErrLRUCacheFull) and still write nothing.
//
// in  {"tables": 9, "rows": 24, "cache": 0, "flush_every": 5}
// out {"steps": [{"what": "create t7", "changed": false}, ...]}

import (
	"bufio"
	"crypto/sha256"
	"encoding/hex"
	"encoding/json"
	"fmt"
	"os"
)

type c13BodyStep struct {
	What    string `json:"what"`
	Changed bool   `json:"changed"`
	Err     string `json:"err,omitempty"`
}

func c13FileSig(path string) string {
	b, err := os.ReadFile(path)
	if err != nil {
		return "unreadable:" + err.Error()
	}
	h := sha256.Sum256(b)
	return fmt.Sprintf("%d:%s", len(b), hex.EncodeToString(h[:]))
}

func init() {
	verifModes["c13body"] = func(in *bufio.Scanner, out *json.Encoder) error {
		n := 0
		for in.Scan() {
			var c struct {
				Tables     int `json:"tables"`
				Rows       int `json:"rows"`
				Cache      int `json:"cache"`
				FlushEvery int `json:"flush_every"`
			}
			if err := json.Unmarshal(in.Bytes(), &c); err != nil {
				return err
			}
			n++
			if c.FlushEvery == 0 && c.Cache == 0 {
				c.FlushEvery = 5
			}
			root, err := os.MkdirTemp("", "verif_c13body_")
			if err != nil {
				return err
			}
			old, _ := os.Getwd()
			if err := os.Chdir(root); err != nil {
				return err
			}
			steps := []c13BodyStep{}
			err = func() error {
				db := fmt.Sprintf("b%d", n)
				if err := CreateDB(db); err != nil {
					return err
				}
				rs, err := VerifOpenRelation(db, c.Cache, false)
				if err != nil {
					return err
				}
				path, _, _ := dbFilePath(db)
				body := func(what string, f func() error) {
					before := c13FileSig(path)
					e := f()
					st := c13BodyStep{What: what, Changed: c13FileSig(path) != before}
					if e != nil {
						st.Err = e.Error()
					}
					steps = append(steps, st)
				}
				for i := 1; i <= c.Tables; i++ {
					name := fmt.Sprintf("t%d", i)
					rel := &Relation{Fields: []FieldDef{{Name: "id", DataType: TypeInt}, {Name: "name", DataType: TypeVarchar, Len: 20}}}
					body("create "+name, func() error { return rs.createTable(rel, name) })
					if err := rs.fs.flushPages(); err != nil {
						return err
					}
				}
				var batch WALBatch
				for i := 1; i <= c.Rows; i++ {
					body(fmt.Sprintf("insert row %d into t1", i), func() error {
						b, err := rs.Insert("t1", nil, []interface{}{int64(i), "r"})
						batch = append(batch, b...)
						return err
					})
					if c.FlushEvery > 0 && i%c.FlushEvery == 0 {
						body("log append", func() error { err := rs.FlushWALBatch(batch); batch = nil; return err })
						if err := rs.fs.flushPages(); err != nil {
							return err
						}
					}
				}
				if err := rs.fs.flushPages(); err != nil {
					return err
				}
				rows, _, err := rs.Fetch("t1")
				if err != nil {
					if c.Cache > 0 {
						rs.VerifAbandon()
						return nil
					}
					return err
				}
				for k, r := range rows {
					if k%4 == 1 {
						id := r.RowID
						body(fmt.Sprintf("update row id %d", id), func() error {
							_, err := rs.Update("t1", id, []string{"name"}, []interface{}{"updated-value"})
							return err
						})
					}
					if k%7 == 3 {
						id := r.RowID
						body(fmt.Sprintf("delete row id %d", id), func() error { _, err := rs.MarkDeleted("t1", id); return err })
					}
				}
				rs.VerifAbandon()
				return nil
			}()
			os.Chdir(old)
			os.RemoveAll(root)
			o := map[string]interface{}{"steps": steps}
			if err != nil {
				o["err"] = err.Error()
			}
			if err := out.Encode(o); err != nil {
				return err
			}
		}
		return in.Err()
	}
}
