//go:build verif

package storage

// Exported observation points for drivers living in other packages (engine, cmd/*).
// Overlaid onto /repo/storage only when building with -tags verif; add-only.

import (
	"bytes"
	"errors"
	"io"
	"os"
	"strings"
)

type VerifPage struct {
	Off     uint64    `json:"off"`
	LSN     uint64    `json:"lsn"`
	Dirty   bool      `json:"dirty"`
	Leaf    bool      `json:"leaf"`
	HasL    bool      `json:"hasL"`
	HasR    bool      `json:"hasR"`
	LSib    uint64    `json:"lsib"`
	RSib    uint64    `json:"rsib"`
	Right   uint64    `json:"right"`
	Keys    []uint32  `json:"keys"`
	Deleted []bool    `json:"deleted"`
	Vals    [][]int   `json:"vals"`
	Kids    []uint64  `json:"kids"`
	Slots   int       `json:"slots"`
	Offsets []uint16  `json:"offsets"`
}

type VerifHeader struct {
	LastKey  uint32 `json:"lastKey"`
	PTRoot   uint64 `json:"ptRoot"`
	NextFree uint64 `json:"nextFree"`
	NextLSN  uint64 `json:"nextLSN"`
}

// VerifOpenRelation is OpenRelation with the flush timer optional and a chosen cache capacity.
func VerifOpenRelation(dbName string, cacheCap int, ticker bool) (*RelationService, error) {
	path, exists, err := dbFilePath(dbName)
	if err != nil {
		return nil, err
	}
	if !exists {
		return nil, ErrDBNotExist
	}
	fs, err := newFileStore(path, ticker)
	if err != nil {
		return nil, err
	}
	if cacheCap > 0 {
		fs.cache = NewLRU(cacheCap)
	}
	if err := fs.open(); err != nil {
		return nil, err
	}
	wal, err := newWal(dbName, true)
	if err != nil {
		return nil, err
	}
	return &RelationService{fs: fs, wal: wal}, nil
}

func (rs *RelationService) VerifFlush() error { return rs.fs.flushPages() }

// VerifAbandon releases the files without flushing anything (the process "dies").
func (rs *RelationService) VerifAbandon() {
	if rs.fs.autoFlushCache {
		rs.fs.ticker.Stop()
		rs.fs.tickerDone <- true
	}
	rs.fs.file.Close()
	rs.wal.reader.Close()
}

func (rs *RelationService) VerifHeader() VerifHeader {
	return VerifHeader{rs.fs.lastKey, rs.fs.pageTableRoot, rs.fs.nextFreeOffset, rs.fs._nextLSN}
}

func verifPageOf(n *btreeNode) VerifPage {
	p := VerifPage{Off: n.fileOffset, LSN: n.lastLSN, Dirty: n.dirty, Leaf: n.isLeaf,
		Keys: []uint32{}, Deleted: []bool{}, Vals: [][]int{}, Kids: []uint64{}, Offsets: append([]uint16{}, n.offsets...)}
	if n.isLeaf {
		p.HasL, p.HasR, p.LSib, p.RSib = n.hasLSib, n.hasRSib, n.lSibFileOffset, n.rSibFileOffset
		p.Slots = len(n.leafCells)
		for _, o := range n.offsets {
			c := n.leafCells[o]
			p.Keys = append(p.Keys, c.key)
			p.Deleted = append(p.Deleted, c.deleted)
			v := make([]int, len(c.valueBytes))
			for i, b := range c.valueBytes {
				v[i] = int(b)
			}
			p.Vals = append(p.Vals, v)
		}
	} else {
		p.Right = n.rightOffset
		p.Slots = len(n.internalCells)
		for _, o := range n.offsets {
			c := n.internalCells[o]
			p.Keys = append(p.Keys, c.key)
			p.Kids = append(p.Kids, c.fileOffset)
		}
	}
	return p
}

// VerifDump returns every allocated page: the cached node if the page is in the cache (without
// touching the LRU order), otherwise what the data file holds.
func (rs *RelationService) VerifDump() ([]VerifPage, error) {
	var out []VerifPage
	for off := uint64(pageSize); off < rs.fs.nextFreeOffset; off += pageSize {
		if e, ok := rs.fs.cache.cache[off]; ok {
			out = append(out, verifPageOf(e.Value.(*cacheEntry).val))
			continue
		}
		n, err := verifReadPage(rs.fs.file, off)
		if err != nil {
			return out, err
		}
		out = append(out, verifPageOf(n))
	}
	return out, nil
}

func verifReadPage(f *os.File, off uint64) (*btreeNode, error) {
	buf := make([]byte, pageSize)
	if _, err := f.ReadAt(buf, int64(off)); err != nil && err != io.EOF {
		return nil, err
	}
	n := &btreeNode{}
	switch buf[0] {
	case InternalNode:
		n.isLeaf = false
	case LeafNode:
		n.isLeaf = true
	default:
		return nil, errors.New("invalid node type value")
	}
	if err := n.decode(bytes.NewBuffer(buf)); err != nil {
		return nil, err
	}
	return n, nil
}

// VerifCacheLen reports how many pages are resident and how many of them are dirty.
func (rs *RelationService) VerifCacheLen() (int, int) {
	d := 0
	for _, e := range rs.fs.cache.cache {
		if e.Value.(*cacheEntry).val.isDirty() {
			d++
		}
	}
	return len(rs.fs.cache.cache), d
}

// VerifWALHook wraps the log file so that before() runs before every Write and Sync.
type verifWalWrap struct {
	inner  readWriteSyncCloser
	before func(kind string, n int)
}

func (w *verifWalWrap) Read(p []byte) (int, error) { return w.inner.Read(p) }
func (w *verifWalWrap) Close() error               { return w.inner.Close() }
func (w *verifWalWrap) Write(p []byte) (int, error) {
	w.before("write", len(p))
	return w.inner.Write(p)
}
func (w *verifWalWrap) Sync() error {
	w.before("sync", 0)
	return w.inner.Sync()
}

func (rs *RelationService) VerifWALHook(before func(kind string, n int)) {
	if ww, ok := rs.wal.reader.(*verifWalWrap); ok {
		ww.before = before
		return
	}
	rs.wal.reader = &verifWalWrap{inner: rs.wal.reader, before: before}
}

func VerifDataPath(db string) string { return dataPath + "/" + strings.ToLower(db) }

const VerifPageSize = pageSize

func VerifErrClass(err error) string {
	switch {
	case err == nil:
		return "ok"
	case errors.Is(err, ErrTableNotExist):
		return "TableNotExist"
	case errors.Is(err, ErrTableAlreadyExist):
		return "TableExists"
	case errors.Is(err, ErrColCountMismatch):
		return "ColCount"
	case errors.Is(err, ErrTypeMismatch):
		return "TypeMismatch"
	case errors.Is(err, ErrIntOutOfRange):
		return "IntRange"
	case errors.Is(err, ErrRowTooLarge):
		return "RowTooLarge"
	case errors.Is(err, errKeyAlreadyExists):
		return "KeyExists"
	case errors.Is(err, ErrFieldNotFound):
		return "FieldNotFound"
	case errors.Is(err, ErrFieldAmbiguous):
		return "FieldAmbiguous"
	case errors.Is(err, ErrLRUCacheFull):
		return "CacheFull"
	case errors.Is(err, ErrDBNotExist):
		return "DBNotExist"
	case errors.Is(err, ErrDBExists):
		return "DBExists"
	case errors.Is(err, ErrDBNotSelected):
		return "DBNotSelected"
	case strings.Contains(err.Error(), "unable to find cell"):
		return "CellNotFound"
	}
	return ""
}
