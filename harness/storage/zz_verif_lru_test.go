//go:build verif

package storage

import (
	"bufio"
	"encoding/json"
	"fmt"
)

// lru mode. Input line: {"cap":3,"ops":[["S",k,v,d],["G",k],["D",k],["C",k],["R",k]]}
// Output line: {"steps":[{"r":..., "res":[[k,v,d],...]}]}
//   S -> r = [ok(0/1), evictedKey or -1] ; G -> r = [found(0/1), value] ; D/C -> r = []
type lruCase struct {
	Cap int             `json:"cap"`
	Ops [][]interface{} `json:"ops"`
	// Sparse: report the resident list after the last operation only (long runs at large capacities)
	Sparse bool `json:"sparse"`
}

type lruStep struct {
	R   []int64    `json:"r"`
	Res [][3]int64 `json:"res"`
}

func lruResident(c *LRUCache) [][3]int64 {
	res := [][3]int64{}
	for e := c.list.Front(); e != nil; e = e.Next() {
		ce := e.Value.(*cacheEntry)
		d := int64(0)
		if ce.val.isDirty() {
			d = 1
		}
		res = append(res, [3]int64{int64(ce.key.(uint64)), int64(ce.val.fileOffset), d})
	}
	return res
}

func init() {
	verifModes["lru"] = func(in *bufio.Scanner, out *json.Encoder) error {
		for in.Scan() {
			var c lruCase
			if err := json.Unmarshal(in.Bytes(), &c); err != nil {
				return err
			}
			cache := NewLRU(c.Cap)
			steps := []lruStep{}
			num := func(x interface{}) uint64 { return uint64(x.(float64)) }
			for i, op := range c.Ops {
				st := lruStep{R: []int64{}}
				switch op[0].(string) {
				case "S":
					before := map[uint64]bool{}
					for k := range cache.cache {
						before[k.(uint64)] = true
					}
					n := &btreeNode{fileOffset: num(op[2]), dirty: num(op[3]) != 0}
					ok := cache.set(num(op[1]), n)
					ev := int64(-1)
					for k := range before {
						if _, still := cache.cache[k]; !still {
							if ev != -1 {
								return fmt.Errorf("two keys evicted by one set")
							}
							ev = int64(k)
						}
					}
					b := int64(0)
					if ok {
						b = 1
					}
					st.R = []int64{b, ev}
				case "R":
					// store the page object that is cached under this key once more (what fileStore.update
					// does with every page it writes): a use like any other; a key that is not cached: a miss
					if e, ok := cache.cache[num(op[1])]; ok {
						n := e.Value.(*cacheEntry).val
						before := len(cache.cache)
						ok := cache.set(num(op[1]), n)
						if len(cache.cache) != before {
							return fmt.Errorf("re-storing a cached page changed the number of entries")
						}
						b := int64(0)
						if ok {
							b = 1
						}
						st.R = []int64{b, -1}
					} else {
						_, _ = cache.get(num(op[1]))
						st.R = []int64{0, 0}
					}
				case "G":
					n, ok := cache.get(num(op[1]))
					if ok {
						st.R = []int64{1, int64(n.fileOffset)}
					} else {
						st.R = []int64{0, 0}
					}
				case "D":
					if e, ok := cache.cache[num(op[1])]; ok {
						e.Value.(*cacheEntry).val.markDirty(0)
					}
				case "C":
					if e, ok := cache.cache[num(op[1])]; ok {
						e.Value.(*cacheEntry).val.markClean()
					}
				}
				if len(cache.cache) != cache.list.Len() {
					return fmt.Errorf("map and list sizes differ")
				}
				if !c.Sparse || i == len(c.Ops)-1 {
					st.Res = lruResident(cache)
				}
				steps = append(steps, st)
			}
			if err := out.Encode(map[string]interface{}{"steps": steps}); err != nil {
				return err
			}
		}
		return in.Err()
	}
}
