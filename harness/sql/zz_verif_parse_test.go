//go:build verif

package sql

import (
	"bufio"
	"encoding/json"
	"errors"
	"fmt"
	"strconv"
	"strings"
	"sync/atomic"
	"time"
)

// Drivers for C09 / C10 (SQL front end).
//
// Byte strings travel through JSON as "latin-1 text": one code point U+0000..U+00FF per byte,
// so that arbitrary (also invalid UTF-8) input bytes and token texts survive encoding/json.
//
// mode "parse":   in  {"text": <latin1>}
//                 out {"raw":[[class,text,peek]...], "toks":[[type,text]...], "out":{...}, "repr":"%#v"}
//                 raw   = what the forked text/scanner returns for the input (class name or "rune",
//                         TokenText, Peek() right after the Scan) - the raw-token oracle;
//                 toks  = the TokenList exactly as engine/session.go parseSQL builds it;
//                 out   = outcome of Parser.Parse on it under recover() with a 2 s watchdog.
// mode "tokens":  in  {"toks":[[type,text]...]}    out {"out":{...}}   (TokenList.Add directly)
// mode "enum":    in  {"vocab":[[type,text]...], "n":N, "prefix":[i,...]}
//                 all sequences prefix ++ s, s of length N-len(prefix) over vocab, lexicographic order;
//                 out {"count":..., "rle":[[class,run]...], "oks":[[index, ast]...]}
// mode "table":   dumps the token enumeration / keyword map / literals slice / join type constants.
//
// outcome: {"k":"ok","ast":<json>} | {"k":"err","e":<class>} | {"k":"panic","msg":..} | {"k":"timeout"}

func toL1(s string) string {
	b := []byte(s)
	r := make([]rune, len(b))
	for i, c := range b {
		r[i] = rune(c)
	}
	return string(r)
}

func fromL1(s string) string {
	b := make([]byte, 0, len(s))
	for _, r := range s {
		b = append(b, byte(r))
	}
	return string(b)
}

func errClass(err error) string {
	var ne *strconv.NumError
	switch {
	case errors.Is(err, ErrSyntax):
		return "syntax"
	case errors.Is(err, ErrUnexpectedToken):
		return "unexpected"
	case errors.Is(err, ErrNegativeLimit):
		return "neglimit"
	case errors.Is(err, ErrNegativeOffset):
		return "negoffset"
	case errors.Is(err, ErrInvalidGroupByColumn):
		return "invalidgroupby"
	case errors.Is(err, ErrAmbiguousGroupByColumn):
		return "ambiguousgroupby"
	case errors.Is(err, ErrTmpUnsupportedSyntax):
		return "tmpunsupported"
	case errors.As(err, &ne):
		return "atoi"
	case err.Error() == "avg() requires a column argument":
		return "avg"
	case strings.HasPrefix(err.Error(), "unsupported token type"):
		return "unsupportedtoken"
	}
	return "other"
}

var classCode = map[string]int{
	"syntax": 1, "unexpected": 2, "neglimit": 3, "negoffset": 4, "invalidgroupby": 5,
	"ambiguousgroupby": 6, "atoi": 7, "avg": 8, "tmpunsupported": 9, "unsupportedtoken": 10, "other": 11,
}

type obj = map[string]interface{}

func list(n int) []interface{} { return make([]interface{}, 0, n) }

// astJSON serialises everything the Go tree holds (type switch; unknown dynamic types are
// reported as {"k":"?"} so that nothing is lost silently).
func astJSON(v interface{}) interface{} {
	switch x := v.(type) {
	case nil:
		return nil
	case int64:
		return obj{"k": "int64", "v": strconv.FormatInt(x, 10)}
	case int:
		return obj{"k": "int", "v": strconv.Itoa(x)}
	case string:
		return obj{"k": "str", "v": toL1(x)}
	case bool:
		return obj{"k": "bool", "v": x}
	case ColumnReference:
		return obj{"k": "col", "q": toL1(x.Qualifier), "n": toL1(x.ColumnName)}
	case ComparisonPredicate:
		return obj{"k": "cmp", "l": astJSON(x.LHS), "op": int(x.CompOp), "r": astJSON(x.RHS)}
	case Predicate:
		return obj{"k": "pred", "l": astJSON(x.LHS), "op": int(x.CompOp), "r": astJSON(x.RHS)}
	case BooleanTerm:
		return obj{"k": "and", "l": astJSON(x.LHS), "r": astJSON(x.RHS)}
	case SearchCondition:
		return obj{"k": "or", "l": astJSON(x.LHS), "r": astJSON(x.RHS)}
	case WhereClause:
		return obj{"k": "where", "c": astJSON(x.SearchCondition)}
	case Count:
		return obj{"k": "count", "arg": astJSON(x.ValueExpression)}
	case Average:
		return obj{"k": "avg", "arg": astJSON(x.ValueExpression)}
	case Asterisk:
		return obj{"k": "star"}
	case DerivedColumn:
		return obj{"k": "dc", "p": astJSON(x.ValueExpressionPrimary), "as": toL1(x.AsClause)}
	case TableName:
		return obj{"k": "tname", "name": toL1(x.Name), "corr": astJSON(x.CorrelationName)}
	case QualifiedJoin:
		return obj{"k": "join", "l": astJSON(x.LHS), "jt": int(x.JoinType), "r": astJSON(x.RHS), "on": astJSON(x.JoinCondition)}
	case SortSpecification:
		return obj{"k": "sort", "key": astJSON(x.SortKey), "type": int(x.OrderingSpecification.Type),
			"text": toL1(x.OrderingSpecification.Text)}
	case Select:
		var sl, fc, gb, ss interface{}
		if x.SelectList != nil {
			l := list(len(x.SelectList))
			for _, d := range x.SelectList {
				l = append(l, astJSON(d))
			}
			sl = l
		}
		if x.FromClause != nil {
			l := list(len(x.FromClause))
			for _, d := range x.FromClause {
				l = append(l, astJSON(d))
			}
			fc = l
		}
		if x.GroupByClause != nil {
			l := list(len(x.GroupByClause))
			for _, d := range x.GroupByClause {
				l = append(l, astJSON(d))
			}
			gb = l
		}
		if x.SortSpecificationList != nil {
			l := list(len(x.SortSpecificationList))
			for _, d := range x.SortSpecificationList {
				l = append(l, astJSON(d))
			}
			ss = l
		}
		return obj{"k": "select", "list": sl, "from": fc, "where": astJSON(x.WhereClause), "group": gb, "sort": ss,
			"la": x.LimitActive, "oa": x.OffsetActive,
			"limit": strconv.Itoa(x.Limit), "offset": strconv.Itoa(x.Offset)}
	case NumericType:
		return obj{"k": "numeric"}
	case BigIntType:
		return obj{"k": "bigint"}
	case BooleanType:
		return obj{"k": "boolean"}
	case CharacterStringType:
		return obj{"k": "charstr", "len": strconv.FormatInt(x.Len, 10), "type": int(x.Type)}
	case TableElement:
		return obj{"k": "element", "name": toL1(x.Name), "dt": astJSON(x.DataType)}
	case CreateTable:
		var els interface{}
		if x.Elements != nil {
			l := list(len(x.Elements))
			for _, e := range x.Elements {
				l = append(l, astJSON(e))
			}
			els = l
		}
		return obj{"k": "createtable", "name": toL1(x.Name), "els": els}
	case CreateDatabase:
		return obj{"k": "createdb", "name": toL1(x.Name)}
	case ShowDatabase:
		return obj{"k": "showdb"}
	case UseStatement:
		return obj{"k": "use", "name": toL1(x.DBName)}
	case RowValueConstructor:
		var vs interface{}
		if x.RowValueConstructorList != nil {
			l := list(len(x.RowValueConstructorList))
			for _, e := range x.RowValueConstructorList {
				l = append(l, astJSON(e))
			}
			vs = l
		}
		return obj{"k": "row", "vals": vs}
	case TableValueConstructor:
		var rows interface{}
		if x.TableValueConstructorList != nil {
			l := list(len(x.TableValueConstructorList))
			for _, e := range x.TableValueConstructorList {
				l = append(l, astJSON(e))
			}
			rows = l
		}
		return obj{"k": "tvc", "rows": rows}
	case InsertStatement:
		var cols interface{}
		if x.ColumnNames != nil {
			l := list(len(x.ColumnNames))
			for _, c := range x.ColumnNames {
				l = append(l, toL1(c))
			}
			cols = l
		}
		return obj{"k": "insert", "table": toL1(x.TableName), "cols": cols, "query": astJSON(x.QueryExpression)}
	case SetClause:
		return obj{"k": "set", "col": toL1(x.ObjectColumn), "src": astJSON(x.UpdateSource)}
	case UpdateStatementSearched:
		var sets interface{}
		if x.Set != nil {
			l := list(len(x.Set))
			for _, c := range x.Set {
				l = append(l, astJSON(c))
			}
			sets = l
		}
		return obj{"k": "update", "table": toL1(x.TableName), "sets": sets, "where": astJSON(x.Where)}
	case DeleteStatementSearched:
		return obj{"k": "delete", "table": toL1(x.TableName), "where": astJSON(x.WhereClause)}
	}
	return obj{"k": "?", "go": fmt.Sprintf("%T", v)}
}

type parseResult struct {
	stmt  interface{}
	err   error
	panic interface{}
}

func parseGuarded(tl TokenList) (res parseResult) {
	defer func() {
		if r := recover(); r != nil {
			res.panic = r
		}
	}()
	p := Parser{TokenList: tl}
	res.stmt, res.err = p.Parse()
	return
}

func outcomeOf(res parseResult) (obj, int) {
	switch {
	case res.panic != nil:
		return obj{"k": "panic", "msg": fmt.Sprint(res.panic)}, 100
	case res.err != nil:
		c := errClass(res.err)
		return obj{"k": "err", "e": c, "msg": toL1(res.err.Error())}, classCode[c]
	}
	return obj{"k": "ok", "ast": astJSON(res.stmt)}, 0
}

// watchdog: a parse that does not return within 2 s is a hang
func parseWatched(tl TokenList) (obj, string) {
	ch := make(chan parseResult, 1)
	go func() { ch <- parseGuarded(tl) }()
	select {
	case res := <-ch:
		o, _ := outcomeOf(res)
		repr := ""
		if res.panic == nil && res.err == nil {
			repr = fmt.Sprintf("%#v", res.stmt)
		}
		return o, repr
	case <-time.After(2 * time.Second):
		return obj{"k": "timeout"}, ""
	}
}

func rawClassName(tok rune) string {
	switch tok {
	case Ident:
		return "Ident"
	case DelimIdent:
		return "DelimIdent"
	case Int:
		return "Int"
	case Float:
		return "Float"
	case Char:
		return "Char"
	case String:
		return "String"
	case RawString:
		return "RawString"
	case Comment:
		return "Comment"
	case EOF:
		return "EOF"
	}
	return "rune"
}

type scanResult struct {
	raw   []interface{}
	tl    TokenList
	panic interface{}
}

// the raw-token oracle and parseSQL's loop, both on the same bytes
func scanGuarded(text string) (res scanResult) {
	defer func() {
		if r := recover(); r != nil {
			res.panic = r
		}
	}()
	quiet := func(s *Scanner, msg string) {}
	var s Scanner
	s.Init(strings.NewReader(text))
	s.Error = quiet
	res.raw = list(16)
	for tok := s.Scan(); tok != EOF; tok = s.Scan() {
		res.raw = append(res.raw, []interface{}{rawClassName(tok), toL1(s.TokenText()), int(s.Peek())})
	}
	// engine/session.go parseSQL:
	//   ts := sql.NewTokenScanner(strings.NewReader(q)); tl := sql.TokenList{}
	//   for ts.Next() { tl.Add(ts.Cur()) }
	ts := NewTokenScanner(strings.NewReader(text))
	ts.s.Error = quiet
	tl := TokenList{}
	for ts.Next() {
		tl.Add(ts.Cur())
	}
	res.tl = tl
	return
}

func tokensJSON(tl TokenList) []interface{} {
	l := list(len(tl.tokens))
	for _, t := range tl.tokens {
		l = append(l, []interface{}{int(t.Type), toL1(t.Text)})
	}
	return l
}

func tokenListOf(js [][]interface{}) TokenList {
	tl := TokenList{}
	for _, t := range js {
		tl.Add(Token{Type: TokenType(int(t[0].(float64))), Text: fromL1(t[1].(string))})
	}
	return tl
}

func init() {
	verifModes["parse"] = func(in *bufio.Scanner, out *json.Encoder) error {
		for in.Scan() {
			var c struct {
				Text string `json:"text"`
			}
			if err := json.Unmarshal(in.Bytes(), &c); err != nil {
				return err
			}
			text := fromL1(c.Text)
			ch := make(chan scanResult, 1)
			go func() { ch <- scanGuarded(text) }()
			var sr scanResult
			select {
			case sr = <-ch:
			case <-time.After(5 * time.Second):
				if err := out.Encode(obj{"raw": nil, "toks": nil, "out": obj{"k": "timeout", "where": "scanner"}}); err != nil {
					return err
				}
				continue
			}
			if sr.panic != nil {
				if err := out.Encode(obj{"raw": sr.raw, "toks": nil,
					"out": obj{"k": "panic", "where": "scanner", "msg": fmt.Sprint(sr.panic)}}); err != nil {
					return err
				}
				continue
			}
			o, repr := parseWatched(sr.tl)
			if err := out.Encode(obj{"raw": sr.raw, "toks": tokensJSON(sr.tl), "out": o, "repr": toL1(repr)}); err != nil {
				return err
			}
		}
		return in.Err()
	}

	verifModes["tokens"] = func(in *bufio.Scanner, out *json.Encoder) error {
		for in.Scan() {
			var c struct {
				Toks [][]interface{} `json:"toks"`
			}
			if err := json.Unmarshal(in.Bytes(), &c); err != nil {
				return err
			}
			o, _ := parseWatched(tokenListOf(c.Toks))
			if err := out.Encode(obj{"out": o}); err != nil {
				return err
			}
		}
		return in.Err()
	}

	verifModes["enum"] = func(in *bufio.Scanner, out *json.Encoder) error {
		for in.Scan() {
			var c struct {
				Vocab  [][]interface{} `json:"vocab"`
				N      int             `json:"n"`
				Prefix []int           `json:"prefix"`
				MaxOks int             `json:"maxoks"`
				Vsize  int             `json:"vsize"` // free positions range over vocab[:vsize] (0 = all)
			}
			if err := json.Unmarshal(in.Bytes(), &c); err != nil {
				return err
			}
			vocab := tokenListOf(c.Vocab).tokens
			free := c.N - len(c.Prefix)
			base := c.Vsize
			if base <= 0 || base > len(vocab) {
				base = len(vocab)
			}
			if free < 0 || len(vocab) == 0 {
				return fmt.Errorf("bad enum request")
			}
			total := 1
			for i := 0; i < free; i++ {
				total *= base
			}
			seqAt := func(idx int) TokenList {
				tl := TokenList{}
				for _, p := range c.Prefix {
					tl.Add(vocab[p])
				}
				digits := make([]int, free)
				for i := free - 1; i >= 0; i-- {
					digits[i] = idx % base
					idx /= base
				}
				for _, d := range digits {
					tl.Add(vocab[d])
				}
				return tl
			}
			classes := make([]uint8, total)
			oks := list(64)
			nOk := 0
			// one worker walks the index space; the watchdog looks at its progress counter. If the
			// counter stands still for 2 s the current sequence hangs: it is recorded as a timeout,
			// the worker is abandoned and a new one continues behind it.
			var progress int64
			start := 0
			for start < total {
				done := make(chan int, 1)
				type okItem struct {
					idx int
					ast interface{}
				}
				okCh := make(chan okItem, 1024)
				from := start
				var stop int32
				stopp := &stop
				go func() {
					for i := from; i < total && atomic.LoadInt32(stopp) == 0; i++ {
						atomic.StoreInt64(&progress, int64(i))
						res := parseGuarded(seqAt(i))
						o, code := outcomeOf(res)
						classes[i] = uint8(code)
						if code == 0 {
							okCh <- okItem{i, o["ast"]}
						}
					}
					close(okCh)
					done <- total
				}()
				last := int64(-1)
				ticker := time.NewTicker(2 * time.Second)
				finished := false
				for !finished {
					select {
					case it, ok := <-okCh:
						if ok {
							nOk++
							if c.MaxOks <= 0 || len(oks) < c.MaxOks {
								oks = append(oks, []interface{}{it.idx, it.ast})
							}
						} else {
							okCh = nil
						}
					case <-done:
						// drain
						if okCh != nil {
							for it := range okCh {
								nOk++
								if c.MaxOks <= 0 || len(oks) < c.MaxOks {
									oks = append(oks, []interface{}{it.idx, it.ast})
								}
							}
						}
						start = total
						finished = true
					case <-ticker.C:
						cur := atomic.LoadInt64(&progress)
						if cur == last {
							atomic.StoreInt32(stopp, 1)
							classes[cur] = 101
							start = int(cur) + 1
							finished = true
						}
						last = cur
					}
				}
				ticker.Stop()
			}
			rle := list(64)
			for i := 0; i < total; {
				j := i
				for j < total && classes[j] == classes[i] {
					j++
				}
				rle = append(rle, []int{int(classes[i]), j - i})
				i = j
			}
			if err := out.Encode(obj{"count": total, "rle": rle, "oks": oks, "nok": nOk}); err != nil {
				return err
			}
		}
		return in.Err()
	}

	verifModes["table"] = func(in *bufio.Scanner, out *json.Encoder) error {
		toks := list(100)
		for i := -2; i <= reserved_word_end+2; i++ {
			t := TokenType(i)
			txt, has := Tokens[t]
			toks = append(toks, obj{"type": i, "text": txt, "has": has, "reserved": t.IsReservedWord(), "literal": t.IsLiteral()})
		}
		kws := obj{}
		for k, v := range keywords {
			kws[k] = int(v)
		}
		lits := list(8)
		for _, l := range literals {
			lits = append(lits, int(l))
		}
		return out.Encode(obj{"tokens": toks, "keywords": kws, "literals": lits, "eof": int(EOFToken.Type),
			"join": obj{"FULL_JOIN": FULL_JOIN, "LEFT_JOIN": LEFT_JOIN, "RIGHT_JOIN": RIGHT_JOIN, "INNER_JOIN": INNER_JOIN}})
	}
}
