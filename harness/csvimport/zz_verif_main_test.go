//go:build verif

package main

// Correspondence drivers for cmd/csvimport. These files live only under
// /verif/harness and are overlaid onto /repo/cmd/csvimport at build time
// (go test -c -overlay ... -tags verif); nothing in /repo is edited.

import (
	"bufio"
	"encoding/json"
	"os"
	"testing"
)

type verifMode func(in *bufio.Scanner, out *json.Encoder) error

var verifModes = map[string]verifMode{}

// TestVerifDriver reads JSON lines from $VERIF_IN, runs the mode named by
// $VERIF_MODE and writes JSON lines to $VERIF_OUT.
func TestVerifDriver(t *testing.T) {
	mode := os.Getenv("VERIF_MODE")
	if mode == "" {
		t.Skip("VERIF_MODE not set")
	}
	fn, ok := verifModes[mode]
	if !ok {
		t.Fatalf("unknown VERIF_MODE %q", mode)
	}
	inF, err := os.Open(os.Getenv("VERIF_IN"))
	if err != nil {
		t.Fatal(err)
	}
	defer inF.Close()
	outF, err := os.Create(os.Getenv("VERIF_OUT"))
	if err != nil {
		t.Fatal(err)
	}
	w := bufio.NewWriterSize(outF, 1<<20)
	defer func() { w.Flush(); outF.Close() }()
	sc := bufio.NewScanner(inF)
	sc.Buffer(make([]byte, 1<<20), 1<<28)
	if err := fn(sc, json.NewEncoder(w)); err != nil {
		t.Fatal(err)
	}
}
