//go:build verif

package main

import (
	"bufio"
	"bytes"
	"encoding/csv"
	"encoding/hex"
	"encoding/json"
	"errors"
	"fmt"
	"io"
	"os"
	"strconv"
	"strings"

	"github.com/mk6i/mkdb/engine"
	"github.com/mk6i/mkdb/sql"
	"github.com/mk6i/mkdb/storage"
)

// csv mode. Input line:
//   {"schema":[{"name":"c0","type":"int"|"bigint"|"varchar"|"boolean"}],
//    "imports":[{"dst":["c0",...],"src":[0,...],"sep":",","csv":"<hex>","fail_after":-1,
//                "types":["int",...]  // used only when colDataTypes cannot resolve dst
//               }]}
// Per import the driver (1) runs a csv.Reader with the settings of doBatchInsert over the same
// bytes and records what it delivers (the oracle: records / *csv.ParseError / other error),
// (2) builds importCfg (colTypes through colDataTypes when it succeeds), (3) runs the real
// doBatchInsert against a real storage.RelationService, draining both channels in order of
// arrival, (4) reads the table back with SELECT *.
type csvSchemaCol struct {
	Name string `json:"name"`
	Type string `json:"type"`
}

type csvImport struct {
	Dst       []string `json:"dst"`
	Src       []int    `json:"src"`
	Sep       string   `json:"sep"`
	Csv       string   `json:"csv"`
	FailAfter int      `json:"fail_after"`
	Types     []string `json:"types"`
	// when set, the configuration is built by the real makeConfig from these flag values
	// (-dest-cols, -src-cols) instead of directly
	Flags *csvFlags `json:"flags,omitempty"`
}

type csvFlags struct {
	Dst string `json:"dst"`
	Src string `json:"src"`
}

type csvCase struct {
	Schema  []csvSchemaCol `json:"schema"`
	Imports []csvImport    `json:"imports"`
}

type csvImportOut struct {
	Reader   []interface{}   `json:"reader"`    // ["rec", [hex...]] | ["perr"] | ["oerr"]
	CfgRoute string          `json:"cfg_route"` // "catalog" | "explicit:<err>"
	ColTypes []int           `json:"col_types"`
	Events   []string        `json:"events"`
	Table    [][]interface{} `json:"table"`
	Atoi     [][]string      `json:"atoi"` // [hex, "ok"|"err", decimal]
}

// a reader that fails with a non-EOF error after n bytes (n < 0: never)
type failingReader struct {
	r io.Reader
	n int
}

func (f *failingReader) Read(p []byte) (int, error) {
	if f.n < 0 {
		return f.r.Read(p)
	}
	if f.n == 0 {
		return 0, errors.New("verif: injected read failure")
	}
	if len(p) > f.n {
		p = p[:f.n]
	}
	k, err := f.r.Read(p)
	f.n -= k
	return k, err
}

func csvTypeOf(s string) storage.DataType {
	switch s {
	case "int":
		return storage.TypeInt
	case "bigint":
		return storage.TypeBigInt
	case "varchar":
		return storage.TypeVarchar
	case "boolean":
		return storage.TypeBoolean
	}
	panic("bad type " + s)
}

func csvErrClass(err error) string {
	switch {
	case errors.Is(err, errMalformedRow):
		return "err:malformed"
	case errors.Is(err, storage.ErrColCountMismatch):
		return "err:colcount"
	case errors.Is(err, storage.ErrTypeMismatch):
		return "err:type"
	case errors.Is(err, storage.ErrIntOutOfRange):
		return "err:intrange"
	case errors.Is(err, storage.ErrRowTooLarge):
		return "err:toolarge"
	case errors.Is(err, storage.ErrFieldNotFound), errors.Is(err, storage.ErrDuplicateColumn):
		return "err:columns"
	}
	return "err:other:" + err.Error()
}

func csvParse(q string) (interface{}, error) {
	ts := sql.NewTokenScanner(strings.NewReader(q))
	tl := sql.TokenList{}
	for ts.Next() {
		tl.Add(ts.Cur())
	}
	p := sql.Parser{TokenList: tl}
	return p.Parse()
}

func csvDumpTable(rm engine.RelationManager, table string) ([][]interface{}, error) {
	q, err := csvParse("select * from " + table)
	if err != nil {
		return nil, err
	}
	rows, _, err := engine.EvaluateSelect(q.(sql.Select), rm)
	if err != nil {
		return nil, err
	}
	out := [][]interface{}{}
	for _, r := range rows {
		row := []interface{}{}
		for _, v := range r.Vals {
			switch x := v.(type) {
			case nil:
				row = append(row, nil)
			case int64:
				row = append(row, map[string]string{"i": strconv.FormatInt(x, 10)})
			case string:
				row = append(row, map[string]string{"s": hex.EncodeToString([]byte(x))})
			case bool:
				row = append(row, map[string]bool{"b": x})
			default:
				row = append(row, map[string]string{"unknown": fmt.Sprintf("%T", v)})
			}
		}
		out = append(out, row)
	}
	return out, nil
}

func init() {
	verifModes["csv"] = func(in *bufio.Scanner, out *json.Encoder) error {
		devnull, err := os.OpenFile(os.DevNull, os.O_WRONLY, 0)
		if err != nil {
			return err
		}
		saved := os.Stdout
		os.Stdout = devnull
		defer func() { os.Stdout = saved }()
		caseNo := 0
		for in.Scan() {
			var c csvCase
			if err := json.Unmarshal(in.Bytes(), &c); err != nil {
				return err
			}
			caseNo++
			db := fmt.Sprintf("vdb%d", caseNo)
			table := "tgt"
			sess := &engine.Session{}
			cols := []string{}
			for _, sc := range c.Schema {
				ty := sc.Type
				if ty == "varchar" {
					ty = "varchar(255)"
				}
				cols = append(cols, sc.Name+" "+ty)
			}
			for _, q := range []string{"CREATE DATABASE " + db, "USE " + db,
				"CREATE TABLE " + table + " (" + strings.Join(cols, ", ") + ")"} {
				if err := sess.ExecQuery(q); err != nil {
					return fmt.Errorf("setup %q: %v", q, err)
				}
			}
			if err := sess.Close(); err != nil {
				return err
			}
			rm, err := storage.OpenRelation(db, false)
			if err != nil {
				return err
			}
			outs := []csvImportOut{}
			for _, im := range c.Imports {
				data, err := hex.DecodeString(im.Csv)
				if err != nil {
					return err
				}
				sep := []rune(im.Sep)[0]
				o := csvImportOut{Reader: []interface{}{}, Events: []string{}, Atoi: [][]string{}}
				// (1) the oracle reader
				or := csv.NewReader(&failingReader{bytes.NewReader(data), im.FailAfter})
				or.ReuseRecord = true
				or.FieldsPerRecord = -1
				or.Comma = sep
				seen := map[string]bool{}
				for {
					rec, err := or.Read()
					if err == io.EOF {
						break
					}
					if err != nil {
						if _, ok := err.(*csv.ParseError); ok {
							o.Reader = append(o.Reader, []interface{}{"perr"})
							continue
						}
						o.Reader = append(o.Reader, []interface{}{"oerr"})
						break
					}
					hx := []string{}
					for _, f := range rec {
						hx = append(hx, hex.EncodeToString([]byte(f)))
						if !seen[f] && len(seen) < 300 {
							seen[f] = true
							v, err := strconv.Atoi(f)
							v2, err2 := strconv.ParseInt(f, 10, 64)
							if (err == nil) != (err2 == nil) || int64(v) != v2 {
								return fmt.Errorf("Atoi and ParseInt disagree on %q", f)
							}
							if err == nil {
								o.Atoi = append(o.Atoi, []string{hex.EncodeToString([]byte(f)), "ok", strconv.Itoa(v)})
							} else {
								o.Atoi = append(o.Atoi, []string{hex.EncodeToString([]byte(f)), "err", "0"})
							}
						}
					}
					o.Reader = append(o.Reader, []interface{}{"rec", hx})
				}
				// (2) configuration
				cfg := importCfg{db: db, dstCols: im.Dst, separator: sep, srcCols: im.Src, table: table}
				if im.Flags != nil {
					*cfgDb, *cfgTable, *cfgSep = db, table, im.Sep
					*cfgDestCols, *cfgSrcCols = im.Flags.Dst, im.Flags.Src
					mc, err := makeConfig(rm)
					if err != nil {
						o.CfgRoute = "makeconfig:err"
						o.ColTypes = []int{}
						if o.Table, err = csvDumpTable(rm, table); err != nil {
							return fmt.Errorf("select: %v", err)
						}
						outs = append(outs, o)
						continue
					}
					cfg = mc
					o.CfgRoute = "makeconfig"
				}
				types, err := colDataTypes(rm, table, im.Dst)
				if im.Flags != nil {
					// cfg.colTypes as makeConfig left them
				} else if err == nil && types != nil {
					cfg.colTypes = types
					o.CfgRoute = "catalog"
				} else {
					o.CfgRoute = fmt.Sprintf("explicit:%v", err)
					for _, t := range im.Types {
						cfg.colTypes = append(cfg.colTypes, csvTypeOf(t))
					}
				}
				o.ColTypes = []int{}
				for _, t := range cfg.colTypes {
					o.ColTypes = append(o.ColTypes, int(t))
				}
				// (3) the real import, events in order of arrival
				chOk, chErr := doBatchInsert(rm, cfg, &failingReader{bytes.NewReader(data), im.FailAfter})
				for chOk != nil || chErr != nil {
					select {
					case _, ok := <-chOk:
						if ok {
							o.Events = append(o.Events, "ok")
						} else {
							chOk = nil
						}
					case err, ok := <-chErr:
						if ok {
							o.Events = append(o.Events, csvErrClass(err))
						} else {
							chErr = nil
						}
					}
				}
				// (4) read back
				o.Table, err = csvDumpTable(rm, table)
				if err != nil {
					return fmt.Errorf("select: %v", err)
				}
				outs = append(outs, o)
			}
			if err := rm.Close(); err != nil {
				return err
			}
			os.RemoveAll("data/" + db)
			if err := out.Encode(map[string]interface{}{"imports": outs}); err != nil {
				return err
			}
		}
		return in.Err()
	}
}
