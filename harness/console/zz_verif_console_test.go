//go:build verif

package main

import (
	"bufio"
	"encoding/json"
	"io"
)

// console mode. Input line: {"chunks":[[b,b,...],...]} - the byte chunks delivered by
// successive Read calls of the terminal's io.Reader (a Read delivers at most one chunk,
// or the part of it that fits; io.EOF after the last chunk).
// Output line: {"lines":[{"s":[[rune,...],...],"p":0|1}], "end":"eof"|"other", "consts":[...]}
// ReadLine is called until it returns an error other than ErrPasteIndicator.
type consoleCase struct {
	Chunks [][]int `json:"chunks"`
}

type chunkReader struct {
	chunks [][]byte
}

func (c *chunkReader) Read(p []byte) (int, error) {
	if len(c.chunks) == 0 {
		return 0, io.EOF
	}
	n := copy(p, c.chunks[0])
	if n == len(c.chunks[0]) {
		c.chunks = c.chunks[1:]
	} else {
		c.chunks[0] = c.chunks[0][n:]
	}
	return n, nil
}

type consoleLine struct {
	S [][]int32 `json:"s"`
	P int       `json:"p"`
}

func init() {
	consts := []int64{keyCtrlC, keyCtrlD, keyCtrlU, keyEnter, keyEscape, keyBackspace, keyUnknown, keyUp, keyDown,
		keyLeft, keyRight, keyAltLeft, keyAltRight, keyHome, keyEnd, keyDeleteWord, keyDeleteLine,
		keyClearScreen, keyPasteStart, keyPasteEnd, 0xFFFD, int64(len(Terminal{}.inBuf))}
	verifModes["console"] = func(in *bufio.Scanner, out *json.Encoder) error {
		for in.Scan() {
			var c consoleCase
			if err := json.Unmarshal(in.Bytes(), &c); err != nil {
				return err
			}
			rd := &chunkReader{}
			for _, ch := range c.Chunks {
				b := make([]byte, len(ch))
				for i, x := range ch {
					b[i] = byte(x)
				}
				rd.chunks = append(rd.chunks, b)
			}
			term := NewTerminal(struct {
				io.Reader
				io.Writer
			}{rd, io.Discard}, "> ")
			lines := []consoleLine{}
			end := "eof"
			for {
				stmts, err := term.ReadLine()
				if err != nil && err != ErrPasteIndicator {
					if err != io.EOF {
						end = "other"
					}
					if stmts != nil {
						end = "eof-with-line"
					}
					break
				}
				l := consoleLine{S: [][]int32{}}
				if err == ErrPasteIndicator {
					l.P = 1
				}
				for _, s := range stmts {
					l.S = append(l.S, []int32(string2runes(s)))
				}
				lines = append(lines, l)
			}
			if err := out.Encode(map[string]interface{}{"lines": lines, "end": end, "consts": consts}); err != nil {
				return err
			}
		}
		return in.Err()
	}
}

// the statement as the sequence of code points of the returned Go string
func string2runes(s string) []rune {
	r := []rune{}
	for _, x := range s {
		r = append(r, x)
	}
	return r
}
